package getbytes

// Bounded stand-in (NOT a proof) for the trusted contracts of the unsafe reinterpretation helpers:
// every helper is run on boundary and pseudo-random values and compared, byte by byte, with the
// arithmetic definition of lebyte used in the contracts (byte j of x = (x div 256^j) mod 256 on
// the two's-complement / IEEE-754 bit pattern).  Bound: 7 boundary values + 2000 random values
// per scalar helper, slices of length 0..17.
import (
	"math"
	"math/rand"
	"testing"
)

func lebyteRef(x uint64, j int) byte { return byte(x >> (8 * uint(j))) }

func checkBytes(t *testing.T, name string, got []byte, want []uint64, w int) {
	t.Helper()
	if len(got) != w*len(want) {
		t.Fatalf("%s: length %d, want %d", name, len(got), w*len(want))
	}
	for k, x := range want {
		for j := 0; j < w; j++ {
			if got[k*w+j] != lebyteRef(x, j) {
				t.Fatalf("%s: element %d (bits %#x) byte %d = %#x, want %#x", name, k, x, j, got[k*w+j], lebyteRef(x, j))
			}
		}
	}
}

func TestVerifBoundedGetbytes(t *testing.T) {
	rng := rand.New(rand.NewSource(1))
	vals := []uint64{0, 1, 0x7f, 0x80, 0xff, 0x8000, 0xffff, 0x7fffffff, 0x80000000, 0xffffffff, 0x123456789abcdef0, 0x7fffffffffffffff, 0x8000000000000000, 0xffffffffffffffff}
	for i := 0; i < 2000; i++ {
		vals = append(vals, rng.Uint64())
	}
	for _, v := range vals {
		checkBytes(t, "FromUint8", FromUint8(uint8(v)), []uint64{uint64(uint8(v))}, 1)
		checkBytes(t, "FromInt8", FromInt8(int8(v)), []uint64{uint64(uint8(v))}, 1)
		checkBytes(t, "FromUint16", FromUint16(uint16(v)), []uint64{uint64(uint16(v))}, 2)
		checkBytes(t, "FromInt16", FromInt16(int16(v)), []uint64{uint64(uint16(v))}, 2)
		checkBytes(t, "FromUint32", FromUint32(uint32(v)), []uint64{uint64(uint32(v))}, 4)
		checkBytes(t, "FromInt32", FromInt32(int32(v)), []uint64{uint64(uint32(v))}, 4)
		checkBytes(t, "FromUint64", FromUint64(v), []uint64{v}, 8)
		checkBytes(t, "FromInt64", FromInt64(int64(v)), []uint64{v}, 8)
		f32 := math.Float32frombits(uint32(v))
		checkBytes(t, "FromFloat32", FromFloat32(f32), []uint64{uint64(math.Float32bits(f32))}, 4)
		f64 := math.Float64frombits(v)
		checkBytes(t, "FromFloat64", FromFloat64(f64), []uint64{math.Float64bits(f64)}, 8)
	}
	for n := 0; n <= 17; n++ {
		u8, i8 := make([]uint8, n), make([]int8, n)
		u16, i16 := make([]uint16, n), make([]int16, n)
		u32, i32 := make([]uint32, n), make([]int32, n)
		u64, i64 := make([]uint64, n), make([]int64, n)
		f32, f64 := make([]float32, n), make([]float64, n)
		w8, w16, w32, w64, wf32, wf64 := make([]uint64, n), make([]uint64, n), make([]uint64, n), make([]uint64, n), make([]uint64, n), make([]uint64, n)
		for k := 0; k < n; k++ {
			v := vals[(7*n+k)%len(vals)]
			u8[k], i8[k], w8[k] = uint8(v), int8(v), uint64(uint8(v))
			u16[k], i16[k], w16[k] = uint16(v), int16(v), uint64(uint16(v))
			u32[k], i32[k], w32[k] = uint32(v), int32(v), uint64(uint32(v))
			u64[k], i64[k], w64[k] = v, int64(v), v
			f32[k] = math.Float32frombits(uint32(v))
			wf32[k] = uint64(math.Float32bits(f32[k]))
			f64[k] = math.Float64frombits(v)
			wf64[k] = math.Float64bits(f64[k])
		}
		checkBytes(t, "FromSliceUint8", FromSliceUint8(u8), w8, 1)
		checkBytes(t, "FromSliceInt8", FromSliceInt8(i8), w8, 1)
		checkBytes(t, "FromSliceUint16", FromSliceUint16(u16), w16, 2)
		checkBytes(t, "FromSliceInt16", FromSliceInt16(i16), w16, 2)
		checkBytes(t, "FromSliceUint32", FromSliceUint32(u32), w32, 4)
		checkBytes(t, "FromSliceInt32", FromSliceInt32(i32), w32, 4)
		checkBytes(t, "FromSliceUint64", FromSliceUint64(u64), w64, 8)
		checkBytes(t, "FromSliceInt64", FromSliceInt64(i64), w64, 8)
		checkBytes(t, "FromSliceFloat32", FromSliceFloat32(f32), wf32, 4)
		checkBytes(t, "FromSliceFloat64", FromSliceFloat64(f64), wf64, 8)
	}
}
