package dastard

// Stand-in (NOT a proof) for the precondition OrderOK of LanceroSource.distributeData, which
// LanceroSource.updateChanOrderMap establishes (nested div/mod index arithmetic, not brought under contract):
// for EVERY geometry of 1..3 active cards with 1..6 columns and 1..6 rows each, the real updateChanOrderMap
// yields a chan2readoutOrder that (a) is a permutation of 0..nchan-1, (b) maps channel 2q+1 to the readout
// word right after the one of channel 2q, and (c) is the true geometry: channel (card d, column c, row r, e)
// numbered column-major = offset_d + 2*(c*nrows + r) + e maps to readout word offset_d + 2*(r*ncols + c) + e
// (row-major, error word then feedback word).  Bound: 3 cards, 6 columns, 6 rows.
import "testing"

func TestVerifBoundedLanceroChanOrder(t *testing.T) {
	type geo struct{ ncols, nrows int }
	var all [][]geo
	var rec func(cur []geo)
	rec = func(cur []geo) {
		if len(cur) > 0 {
			all = append(all, append([]geo(nil), cur...))
		}
		if len(cur) == 3 {
			return
		}
		for c := 1; c <= 6; c += 1 {
			for r := 1; r <= 6; r += 1 {
				if len(cur) >= 1 && (c > 3 || r > 3) {
					continue // second and third card: up to 3x3, keeps the enumeration small
				}
				rec(append(cur, geo{c, r}))
			}
		}
	}
	rec(nil)
	for _, cards := range all {
		ls := new(LanceroSource)
		ls.devices = map[int]*LanceroDevice{}
		n := 0
		for i, g := range cards {
			dev := &LanceroDevice{devnum: i, ncols: g.ncols, nrows: g.nrows}
			ls.devices[i] = dev
			ls.active = append(ls.active, dev)
			n += 2 * g.ncols * g.nrows
		}
		ls.nchan = n
		ls.updateChanOrderMap()
		ro := ls.chan2readoutOrder
		if len(ro) != n || len(ls.Mix) != n {
			t.Fatalf("%v: table lengths %d/%d, want %d", cards, len(ro), len(ls.Mix), n)
		}
		seen := make([]bool, n)
		seenMix := map[*Mix]bool{}
		for c := 0; c < n; c++ {
			if ro[c] < 0 || ro[c] >= n || seen[ro[c]] {
				t.Fatalf("%v: chan2readoutOrder is not a permutation at channel %d (%d)", cards, c, ro[c])
			}
			seen[ro[c]] = true
			if c%2 == 0 && ro[c+1] != ro[c]+1 {
				t.Fatalf("%v: feedback channel %d is not read out right after its error channel", cards, c+1)
			}
			if ls.Mix[c] == nil || seenMix[ls.Mix[c]] {
				t.Fatalf("%v: Mix objects not distinct/non-nil at %d", cards, c)
			}
			seenMix[ls.Mix[c]] = true
		}
		off := 0
		for _, g := range cards {
			for col := 0; col < g.ncols; col++ {
				for row := 0; row < g.nrows; row++ {
					for e := 0; e < 2; e++ {
						ch := off + 2*(col*g.nrows+row) + e
						want := off + 2*(row*g.ncols+col) + e
						if ro[ch] != want {
							t.Fatalf("%v: channel %d (col %d,row %d,%d) maps to readout %d, want %d", cards, ch, col, row, e, ro[ch], want)
						}
					}
				}
			}
			off += 2 * g.ncols * g.nrows
		}
	}
	if len(all) < 100 {
		t.Fatalf("vacuous: only %d geometries", len(all))
	}
}
