package dastard

// Stand-in (NOT a proof) for the Abaco side of C19 that the verifier cannot reach: AbacoSource.Sample
// starts goroutines per producer and collects over a channel, so it is outside the verified subset.
// AbacoSource.PrepareChannels is verified deductively under the precondition AGroupsOK (pairwise disjoint
// group ranges, nchan = total); this test runs the REAL Sample followed by the REAL PrepareChannels for
// EVERY layout of 1..3 channel groups with first channel 0..5 and 1..3 channels each (one producer, one
// time-stamped packet pair per group) and checks that whenever Sample accepts the layout, the precondition
// holds and the resulting channel numbers and names are pairwise distinct.  Bound: 3 groups, Firstchan<=5,
// Nchan<=3, a single producer.
import (
	"testing"
	"time"

	"github.com/usnistgov/dastard/packets"
)

type verifFakeProducer struct {
	pkts []*packets.Packet
}

func (f *verifFakeProducer) ReadAllPackets() ([]*packets.Packet, error) { return nil, nil }
func (f *verifFakeProducer) samplePackets(d time.Duration) ([]*packets.Packet, error) {
	return f.pkts, nil
}
func (f *verifFakeProducer) start() error        { return nil }
func (f *verifFakeProducer) discardStale() error { return nil }
func (f *verifFakeProducer) stop() error         { return nil }

func verifGroupPackets(first, nchan int) []*packets.Packet {
	var out []*packets.Packet
	for k := 0; k < 2; k++ {
		p := packets.NewPacket(10, 20, uint32(100+k), first)
		ts := &packets.PacketTimestamp{T: uint64(1000 + 1000*k), Rate: 1e6}
		p.SetTimestamp(ts)
		data := make([]int16, nchan*4)
		if err := p.NewData(data, []int16{int16(nchan)}); err != nil {
			panic(err)
		}
		out = append(out, p)
	}
	return out
}

func TestVerifBoundedAbacoSampleOverlap(t *testing.T) {
	type grp struct{ first, n int }
	var layouts [][]grp
	var rec func(cur []grp)
	rec = func(cur []grp) {
		if len(cur) > 0 {
			layouts = append(layouts, append([]grp(nil), cur...))
		}
		if len(cur) == 3 {
			return
		}
		for first := 0; first <= 5; first++ {
			for n := 1; n <= 3; n++ {
				rec(append(cur, grp{first, n}))
			}
		}
	}
	rec(nil)
	accepted, rejected := 0, 0
	for _, lay := range layouts {
		as := new(AbacoSource)
		as.name = "Abaco"
		as.groups = make(map[GroupIndex]*AbacoGroup)
		as.eTrigPackets = make([]*packets.Packet, 0)
		fp := &verifFakeProducer{}
		for _, g := range lay {
			fp.pkts = append(fp.pkts, verifGroupPackets(g.first, g.n)...)
		}
		as.producers = []PacketProducer{fp}
		if err := as.Sample(); err != nil {
			rejected++
			continue
		}
		accepted++
		keys := as.groupKeysSorted
		total := 0
		for a := range keys {
			total += keys[a].Nchan
			for b := a + 1; b < len(keys); b++ {
				if !(keys[a].Firstchan+keys[a].Nchan <= keys[b].Firstchan || keys[b].Firstchan+keys[b].Nchan <= keys[a].Firstchan) {
					t.Fatalf("layout %v accepted by Sample, but groups %v and %v overlap (precondition AGroupsOK of PrepareChannels fails)", lay, keys[a], keys[b])
				}
			}
		}
		if total != as.nchan || len(as.groups) != len(keys) {
			t.Fatalf("layout %v: nchan=%d but groups total %d; %d groups, %d keys", lay, as.nchan, total, len(as.groups), len(keys))
		}
		if err := as.PrepareChannels(); err != nil {
			t.Fatalf("layout %v: PrepareChannels: %v", lay, err)
		}
		seenNum := map[int]bool{}
		seenName := map[string]bool{}
		for i, c := range as.chanNumbers {
			if seenNum[c] || seenName[as.chanNames[i]] {
				t.Fatalf("layout %v accepted, but channel number %d / name %s is used twice", lay, c, as.chanNames[i])
			}
			seenNum[c] = true
			seenName[as.chanNames[i]] = true
		}
	}
	if accepted == 0 || rejected == 0 {
		t.Fatalf("vacuous: %d accepted, %d rejected layouts", accepted, rejected)
	}
}
