package dastard

// Stand-in (NOT a proof) for the constructor side of C12: NewPhaseUnwrapper uses shifts by variable
// amounts, which the verifier treats as uninterpreted, so its (trusted) postcondition -- the
// representation invariant InvU and the mask-range fact MaskOK that UnwrapInPlace's proof relies on --
// is checked here on the real constructor for EVERY parameter set admitted by its contract's
// precondition: fractionBits 2..16, lowBitsToDrop 0..fractionBits-2 (quantum 4..16384 when enabled), enable
// on/off, every bias level with |bias| <= half a quantum at full scale (sampled: 0, +-1, +-max/2,
// +-max), reset interval {1, 20000}, pulse sign +/-1, inversion on/off; MaskOK exhaustively over all
// 65536 raw values.  The call sites are verified deductively to satisfy that precondition.
import "testing"

func checkInvU(t *testing.T, name string, u *PhaseUnwrapper) {
	t.Helper()
	if !(u.enable && u.lowBitsToDrop > 0) {
		return
	}
	T := int(u.twoPi)
	pow := false
	for s := 1; s <= 14; s++ {
		if T == 1<<uint(s) {
			pow = true
		}
	}
	lo, hi := int(u.lowerStepLim), int(u.upperStepLim)
	switch {
	case !pow:
		t.Errorf("%s: twoPi=%d is not a power of two in [2,16384]", name, T)
	case hi-lo != T:
		t.Errorf("%s: upperStepLim-lowerStepLim = %d, want twoPi=%d", name, hi-lo, T)
	case !(-T <= lo && lo <= 0 && 0 <= hi && hi <= T):
		t.Errorf("%s: step window [%d,%d] does not contain 0 within one quantum (twoPi=%d)", name, lo, hi, T)
	case int(u.lastVal) >= T, u.resetCount < 0, u.resetCount > u.resetAfter, u.resetAfter <= 0:
		t.Errorf("%s: bad initial state lastVal=%d resetCount=%d resetAfter=%d", name, u.lastVal, u.resetCount, u.resetAfter)
	case int(u.offset)%T != 0, int(u.resetOffset)%T != 0:
		t.Errorf("%s: offset %d / resetOffset %d not multiples of twoPi=%d", name, u.offset, u.resetOffset, T)
	}
	for x := 0; x < 65536; x++ {
		v := int(uint16(RawType(x)&u.signMask) >> u.lowBitsToDrop)
		if v < 0 || v >= T {
			t.Fatalf("%s: MaskOK fails: raw %#x gives v=%d, twoPi=%d", name, x, v, T)
		}
	}
}

func TestVerifBoundedUnwrapperConstruction(t *testing.T) {
	n := 0
	for fb := uint(2); fb <= 16; fb++ {
		for drop := uint(0); drop+2 <= fb; drop++ {
			half := 1 << (fb - 1) // half a quantum at full scale: the contract requires |biasLevel| <= half
			for _, enable := range []bool{false, true} {
				if enable && (drop == 0 || fb-drop > 14) {
					continue // excluded by the precondition (documented panic / quantum above 2^14)
				}
				for _, bias := range []int{0, 1, -1, half / 2, -half / 2, half, -half} {
					for _, ra := range []int{1, 20000} {
						for _, sign := range []int{-1, 1} {
							for _, inv := range []bool{false, true} {
								u := NewPhaseUnwrapper(fb, drop, enable, bias, ra, sign, inv)
								checkInvU(t, "NewPhaseUnwrapper", u)
								n++
							}
						}
					}
				}
			}
		}
	}
	if n < 5000 {
		t.Fatalf("only %d configurations", n)
	}
}
