package packets

// Bounded stand-in (NOT a proof) for the round-trip clause of C15: Encoding any packet built
// through the public constructors and decoding the bytes reproduces version, source id,
// sequence number, channel offset, shape, payload samples and timestamp counter.
// Bound: versions {0,1,0x10,0xff} x 3 source ids x 4 sequence numbers x 4 channel offsets x
// payload types {int16,int32,int64} x dims of 1..3 entries x 0..8 samples x timestamp {none, 3 values}.
import (
	"bytes"
	"reflect"
	"testing"
)

func TestVerifBoundedRoundTrip(t *testing.T) {
	n := 0
	for _, version := range []uint8{0, 1, 0x10, 0xff} {
		for _, src := range []uint32{0, 7, 0xffffffff} {
			for _, seq := range []uint32{0, 1, 0x7fffffff, 0xfffffffe} {
				for _, off := range []int{0, 1, 64, 1 << 20} {
					for kind := 0; kind < 3; kind++ {
						for _, dims := range [][]int16{{1}, {4}, {2, 2}, {2, 1, 2}} {
							for ns := 0; ns <= 8; ns++ {
								for tsi := 0; tsi < 4; tsi++ {
									p := NewPacket(version, src, seq, off)
									if tsi > 0 {
										ts := &PacketTimestamp{T: []uint64{0, 1, 0x0000ffffffffffff, 0xfedcba9876543210}[tsi], Rate: 1e9}
										p.SetTimestamp(ts)
									}
									var payload interface{}
									switch kind {
									case 0:
										d := make([]int16, ns)
										for i := range d {
											d[i] = int16(i*7919 - 3*ns + int(seq))
										}
										payload = d
									case 1:
										d := make([]int32, ns)
										for i := range d {
											d[i] = int32(i*104729-ns) ^ int32(seq)
										}
										payload = d
									default:
										d := make([]int64, ns)
										for i := range d {
											d[i] = int64(i)*1299709 - int64(ns)<<40 + int64(seq)
										}
										payload = d
									}
									if err := p.NewData(payload, dims); err != nil {
										t.Fatalf("NewData: %v", err)
									}
									b := p.Bytes()
									q, err := ReadPacket(bytes.NewReader(b))
									if ns == 0 {
										// an empty payload is encoded without data; decoding must still be total
										if err == nil {
											_ = q.Frames()
											_, _ = q.ChannelInfo()
										}
										n++
										continue
									}
									if err != nil {
										t.Fatalf("decode(encode(p)) failed: %v (version %d dims %v ns %d kind %d)", err, version, dims, ns, kind)
									}
									if q.version != p.version || q.sourceID != p.sourceID || q.sequenceNumber != p.sequenceNumber || q.offset != p.offset {
										t.Fatalf("header mismatch: got v%d src%d sn%d off%d want v%d src%d sn%d off%d", q.version, q.sourceID, q.sequenceNumber, q.offset, p.version, p.sourceID, p.sequenceNumber, p.offset)
									}
									if q.shape == nil || !reflect.DeepEqual(q.shape.Sizes, p.shape.Sizes) {
										t.Fatalf("shape mismatch: got %v want %v", q.shape, p.shape.Sizes)
									}
									if !reflect.DeepEqual(q.Data, p.Data) {
										t.Fatalf("payload mismatch: got %v want %v", q.Data, p.Data)
									}
									if tsi > 0 {
										if q.timestamp == nil || q.timestamp.T != p.timestamp.T {
											t.Fatalf("timestamp counter mismatch: got %v want %v", q.timestamp, p.timestamp)
										}
									} else if q.timestamp != nil {
										t.Fatalf("timestamp appeared from nowhere")
									}
									if q.Length() != len(b) || q.Frames() != p.Frames() {
										t.Fatalf("sizes inconsistent: Length %d len(bytes) %d Frames %d/%d", q.Length(), len(b), q.Frames(), p.Frames())
									}
									n++
								}
							}
						}
					}
				}
			}
		}
	}
	if n < 20000 {
		t.Fatalf("only %d cases enumerated", n)
	}
}
