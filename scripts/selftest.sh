#!/bin/bash
# usage: selftest.sh <property> : must-fail selftest of a property's check (part of the thorough tier).
# Every canary in selftest/canaries/<property>-*.patch re-introduces a defect that was found with this check and has
# since been repaired in /repo.  Each is applied to a scratch worktree of /repo HEAD; the quick check run against that
# worktree MUST report a violation.  A canary that no longer fails means the check has lost its teeth (a vacuous
# precondition, a dropped obligation): that is reported as SELFTEST-FAILED and exit code 2 (not a property violation).
set -u
prop=$1
cd /verif
rc=0; n=0
for c in selftest/canaries/$prop-*.patch; do
  [ -e "$c" ] || continue
  n=$((n+1))
  wt=$(mktemp -d /tmp/selftest-$prop.XXXXXX); rmdir $wt
  git -C /repo worktree add -q --detach $wt HEAD || { echo "SELFTEST-ERROR cannot create worktree"; rc=2; continue; }
  if ! git -C $wt apply "$(readlink -f $c)" 2>/dev/null; then
    echo "SELFTEST-SKIPPED canary=$(basename $c) (patch no longer applies to the current tree)"
  else
    ev=$(mktemp -d /tmp/selftest-ev.XXXXXX)
    DVC_NO_REPLAY=1 DVC_EVIDENCE_DIR=$ev ./bin/dvc check $prop --repo $wt --tier quick > $ev/out 2>&1; crc=$?
    if [ $crc -eq 1 ] && grep -q "^VIOLATION property=$prop" $ev/out; then
      echo "selftest ok: canary=$(basename $c) is reported ($(grep -c '^VIOLATION' $ev/out) violation lines)"
    else
      echo "SELFTEST-FAILED canary=$(basename $c): the check did not report the re-introduced defect (exit $crc)"; rc=2
    fi
    rm -rf $ev
  fi
  git -C /repo worktree remove --force $wt >/dev/null 2>&1; rm -rf $wt
done
# Replay canaries: changes whose violation the replay driver must confirm on the real code (a VIOLATION line that does
# not end in no-failing-input-found).  A replay canary that is reported but no longer confirmed means the replay driver
# has lost its reach: reported as SELFTEST-FAILED as well.
for c in selftest/replay/$prop-*.patch; do
  [ -e "$c" ] || continue
  n=$((n+1))
  wt=$(mktemp -d /tmp/selftest-$prop.XXXXXX); rmdir $wt
  git -C /repo worktree add -q --detach $wt HEAD || { echo "SELFTEST-ERROR cannot create worktree"; rc=2; continue; }
  if ! git -C $wt apply "$(readlink -f $c)" 2>/dev/null; then
    echo "SELFTEST-SKIPPED replay canary=$(basename $c) (patch no longer applies to the current tree)"
  else
    ev=$(mktemp -d /tmp/selftest-ev.XXXXXX)
    DVC_REPLAY_DIR=$ev/replay DVC_EVIDENCE_DIR=$ev ./bin/dvc check $prop --repo $wt --tier quick > $ev/out 2>&1; crc=$?
    if [ $crc -eq 1 ] && grep "^VIOLATION property=$prop" $ev/out | grep -qv "no-failing-input-found"; then
      echo "selftest ok: replay canary=$(basename $c) is reported and confirmed on the real code"
    else
      echo "SELFTEST-FAILED replay canary=$(basename $c): no violation with a failing input was reported (exit $crc)"; rc=2
    fi
    rm -rf $ev
  fi
  git -C /repo worktree remove --force $wt >/dev/null 2>&1; rm -rf $wt
done
echo "selftest $prop: $n canaries, exit $rc"
exit $rc
