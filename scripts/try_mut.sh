#!/bin/bash
# usage: try_mut.sh <file relative to /repo> <sed expr> <prop> : applies a one-off mutation to /repo, runs the quick check, restores.
set -u
f=$1; expr=$2; prop=$3
cd /repo || exit 2
if ! git diff --quiet; then echo "REFUSING: /repo working tree not clean"; exit 2; fi
sed -i "$expr" "$f"
if git diff --quiet; then echo "mutation did not change anything"; exit 2; fi
git diff | grep '^[-+]' | grep -v '^+++\|^---' | head -6
export GOFLAGS=-mod=mod GOPROXY=off GOSUMDB=off GOTOOLCHAIN=local
if ! go build ./... >/dev/null 2>&1; then echo "mutant does not build"; git checkout -- .; exit 2; fi
mkdir -p /verif/work/trial-evidence
DVC_EVIDENCE_DIR=/verif/work/trial-evidence /verif/bin/dvc check "$prop" 2>&1 | grep -E "VIOLATION|obligations" | cut -c1-220 | head -6
git checkout -- .
