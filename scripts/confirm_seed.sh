#!/bin/bash
# usage: confirm_seed.sh <seed-dir> : confirms a seeded change in a scratch worktree of /repo HEAD
# (demo passes on clean tree, fails with patch; full suite with patch has the baseline pass set).
# The full-suite run takes a lock so that concurrent confirmations do not collide on fixed UDP ports.
set -u
export GOFLAGS=-mod=mod GOPROXY=off GOSUMDB=off GOTOOLCHAIN=local
export GOPATH=$(go env GOPATH) GOCACHE=$(go env GOCACHE) GOMODCACHE=$(go env GOMODCACHE)
d=$(readlink -f "$1"); name=$(basename "$d")
wt=/tmp/confirm-$name
git -C /repo worktree remove --force $wt >/dev/null 2>&1
git -C /repo worktree add -q --detach $wt HEAD || exit 2
trap 'git -C /repo worktree remove --force $wt >/dev/null 2>&1; rm -rf $wt' EXIT
cd $wt
pk=$(grep -m1 -E '^package ' "$d/demo_test.go" | awk '{print $2}' | sed 's/_test$//')
case "$pk" in dastard) dest=. ;; *) dest=$pk ;; esac
[ -n "${DEMO_DEST:-}" ] && dest=$DEMO_DEST
cp "$d/demo_test.go" $dest/zz_seed_demo_test.go
pkg=./$dest
run_demo() { HOME=/tmp/confirm-home-$name go test -vet=off -count=1 -timeout 180s -run 'Seed|Demo|C[0-9][0-9]' $pkg > /tmp/confirm-$name.demo.$1.log 2>&1; echo $?; }
mkdir -p /tmp/confirm-home-$name
clean=$(run_demo clean)
if ! git apply "$d/patch.diff"; then echo "$name: PATCH DOES NOT APPLY"; exit 1; fi
rm -f $dest/zz_seed_demo_test.go
go build ./... > /tmp/confirm-$name.build.log 2>&1 || { echo "$name: DOES NOT BUILD"; exit 1; }
cp "$d/demo_test.go" $dest/zz_seed_demo_test.go
patched=$(run_demo patched)
rm -f $dest/zz_seed_demo_test.go
flock /tmp/confirm-suite.lock bash -c "HOME=/tmp/confirm-home-$name go test -vet=off -count=1 -timeout 25m -json ./... 2>/dev/null" | python3 -c "
import sys,json
res={}
for l in sys.stdin:
    try: e=json.loads(l)
    except: continue
    if e.get('Test') and e.get('Action') in ('pass','fail') and '/' not in e['Test']:
        res[e['Package']+'::'+e['Test']]=e['Action']
base=json.load(open('/root/.vp/BASELINE.json'))
missing=[t for t in base['stable_pass'] if res.get(t)!='pass']
print('suite_missing', len(missing), missing[:5])
" > /tmp/confirm-$name.suite.log 2>&1
rm -rf /tmp/confirm-home-$name
echo "$name: demo_clean_exit=$clean demo_patched_exit=$patched $(cat /tmp/confirm-$name.suite.log)"
