#!/bin/bash
# usage: seed_sweep.sh <seed>... : runs every claimed quick check under each seed (evidence to the trial dir)
cd /verif
for sd in "$@"; do
  for p in $(python3 -c "import json;print(' '.join(sorted(json.load(open('scripts/props_claimed.json')).keys())))"); do
    VERIF_SEED=$sd DVC_EVIDENCE_DIR=/verif/work/trial-evidence ./bin/dvc check $p 2>&1 | grep -E "^VIOLATION|obligations" | sed "s/^/seed=$sd /" | cut -c1-260
  done
done
