#!/bin/bash
# run every claimed check (quick tier) on the current /repo tree, regenerating /verif/evidence
cd /verif
for p in $(python3 -c "import json; print(' '.join(c['property_id'] for c in json.load(open('MANIFEST.json'))['checks']))"); do
  ./bin/dvc check $p --tier ${1:-quick} 2>&1 | grep -E "^VIOLATION|^KNOWN|machinery|obligations,"
done
