#!/bin/bash
# mirror the contract files of /repo into /verif/contracts (used only if a file is missing from the tree under test)
cd /repo && find . -name 'verif_contracts*.go' | while read f; do mkdir -p /verif/contracts/$(dirname $f); cp $f /verif/contracts/$f; done
# record the parameter/local names of all functions under contract (rename-robust attachment; run on the unchanged tree only)
/verif/bin/dvc bind
