#!/bin/bash
# usage: try_patch.sh <patch-file> <property> : apply a patch to /repo, run the property's quick check, undo.
set -u
f=$(readlink -f "$1"); prop=$2
if [ -n "$(git -C /repo status --porcelain)" ]; then echo "REFUSING: /repo working tree not clean"; exit 2; fi
git -C /repo apply "$f" || { echo "PATCH DOES NOT APPLY"; exit 2; }
cd /verif && DVC_EVIDENCE_DIR=/verif/work/trial-evidence ./bin/dvc check $prop > /tmp/try_patch.out 2>&1; rc=$?
git -C /repo checkout -- . ; git -C /repo clean -fdq
echo "$(basename $f) on $prop: exit=$rc violations=$(grep -c '^VIOLATION' /tmp/try_patch.out)"
grep "^VIOLATION" /tmp/try_patch.out | sed 's/.*obligation=//; s/.*replay=/replay=/' | head -6
