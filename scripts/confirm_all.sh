#!/bin/bash
# confirm every seed not yet confirmed; results in /verif/work/confirm/<seed>.txt
mkdir -p /verif/work/confirm
for d in /verif/seeded/*/; do n=$(basename $d); if ! grep -q "demo_clean_exit=0 demo_patched_exit=1 suite_missing 0" /verif/work/confirm/$n.txt 2>/dev/null; then echo $d; fi; done | xargs -P 2 -I{} bash -c 'n=$(basename {}); /verif/scripts/confirm_seed.sh {} > /verif/work/confirm/$n.txt 2>&1'
