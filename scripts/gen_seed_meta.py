#!/usr/bin/env python3
"""Writes seeded/<id>/meta.json from the agent's notes.md, the confirmation runs (work/confirm/*.txt) and the
detection results of scripts/all_seeds.sh (work/seed_results.txt)."""
import json, os, re, glob
conf={}
for f in glob.glob('/verif/work/confirm/*.txt'):
    for l in open(f):
        m=re.match(r'(C\d\d-\d): (.*)', l.strip())
        if m: conf[m.group(1)]=m.group(2)
det={}
if os.path.exists('/verif/work/seed_results.txt'):
    for l in open('/verif/work/seed_results.txt'):
        m=re.match(r'(C\d\d-\d): (.*)', l.strip())
        if m: det[m.group(1)]=m.group(2)
rep={}
if os.path.exists('/verif/seeded/replay_sweep.txt'):
    for l in open('/verif/seeded/replay_sweep.txt'):
        m=re.match(r'(C\d\d-\d): (.*)', l.strip())
        if m: rep[m.group(1)]=m.group(2)
override=json.load(open('/verif/scripts/seed_notes.json')) if os.path.exists('/verif/scripts/seed_notes.json') else {}
for d in sorted(glob.glob('/verif/seeded/C*-*')):
    n=os.path.basename(d); prop=n.split('-')[0]
    notes=open(d+'/notes.md').read() if os.path.exists(d+'/notes.md') else ''
    def section(*keys):
        parts=re.split(r'\n## ', '\n'+notes)
        for p in parts:
            head=p.split('\n',1)[0].lower()
            if any(k in head for k in keys):
                return ' '.join(p.split('\n',1)[1].split())[:1500] if '\n' in p else ''
        return ''
    files=sorted(set(re.findall(r'^\+\+\+ b/(\S+)', open(d+'/patch.diff').read(), re.M)))
    meta={
      "seed": n, "property": prop, "files_changed": files,
      "change": section('change'),
      "clause_broken": section('clause'),
      "needs_to_manifest": section('needs'),
      "author": "independent sub-agent given only the property text and a scratch worktree",
      "what_i_ran": {
        "confirmation (scripts/confirm_seed.sh: demonstration on the clean and on the patched tree in a scratch worktree, then the repository's full test suite with the patch)": conf.get(n,'not recorded'),
        "detection (scripts/try_seed.sh: patch applied to /repo, quick check of the property, /repo restored)": det.get(n,'not run yet'),
      },
      "apply": "git -C /repo apply /verif/seeded/%s/patch.diff" % n, "undo": "git -C /repo checkout -- .",
    }
    if n in rep:
        meta["what_i_ran"]["replay on the real code (same check with the replay driver on; confirmed = VIOLATION lines that carry a failing input instead of no-failing-input-found)"]=rep[n]
    if n in override: meta["note"]=override[n]
    json.dump(meta, open(d+'/meta.json','w'), indent=1)
print("wrote", len(glob.glob('/verif/seeded/C*-*/meta.json')), "meta.json files")
