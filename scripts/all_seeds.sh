#!/bin/bash
# usage: all_seeds.sh [seed ...] : for every seeded change: scratch worktree of /repo HEAD, apply the patch, run the
# quick check of its property against that worktree (dvc check --repo), remove the worktree.  /repo itself is not touched.
# Results are appended to work/seed_results.txt (one line per seed).
cd /verif
seeds=${@:-$(ls -d seeded/C*-* | xargs -n1 basename)}
for n in $seeds; do
  d=/verif/seeded/$n; prop=${n%-*}
  if ! grep -q "\"$prop\"" scripts/props_claimed.json; then echo "$n: property $prop not claimed" >> work/seed_results.txt; continue; fi
  wt=/tmp/seedwt-$n
  git -C /repo worktree remove --force $wt >/dev/null 2>&1
  git -C /repo worktree add -q --detach $wt HEAD || { echo "$n: worktree failed" >> work/seed_results.txt; continue; }
  if ! git -C $wt apply $d/patch.diff 2>/dev/null; then echo "$n: PATCH DOES NOT APPLY" >> work/seed_results.txt; git -C /repo worktree remove --force $wt; continue; fi
  DVC_EVIDENCE_DIR=/verif/work/trial-evidence ./bin/dvc check $prop --repo $wt > /tmp/all_seeds.$n.out 2>&1; rc=$?
  echo "$n: exit=$rc violations=$(grep -c '^VIOLATION' /tmp/all_seeds.$n.out) | $(grep '^VIOLATION' /tmp/all_seeds.$n.out | sed 's/.*obligation=//' | head -3 | tr '\n' ';' | cut -c1-300)" >> work/seed_results.txt
  rm -f /tmp/all_seeds.$n.out
  git -C /repo worktree remove --force $wt >/dev/null 2>&1; rm -rf $wt
done
echo ALLDONE >> work/seed_results.txt
