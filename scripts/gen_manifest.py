#!/usr/bin/env python3
"""Regenerates /verif/MANIFEST.json from scripts/props_claimed.json (claimed checks) and properties.jsonl."""
import json, subprocess
props=[json.loads(l) for l in open('/verif/properties.jsonl')]
claimed=json.load(open('/verif/scripts/props_claimed.json'))
na_reasons=json.load(open('/verif/scripts/props_na.json'))
hooks=subprocess.run("git -C /repo log --format='%h %s' | grep 'verif hook' | cut -d' ' -f1",shell=True,capture_output=True,text=True).stdout.split()
m={"version":1,
"setup_cmd":"cd /verif/tool && GOFLAGS=-mod=mod GOPROXY=off GOSUMDB=off GOTOOLCHAIN=local go build -o /verif/bin/dvc ./cmd/dvc",
"hooks":{"guard":"verif","enable":"contract files verif_contracts.go are comment-only and carry //go:build verif; dvc loads /repo with -tags verif","baseline_off_cmd":"cd /repo && go test -vet=off -count=1 -timeout 25m ./...","source_commits":hooks,"add_only":True},
"engines":[{"name":"dvc","path":"/verif/tool","serves_properties":sorted(claimed.keys()),"kind_free_text":"contract-based deductive verifier for Go written for this task: go/ssa (naive form) of the current /repo tree + //@ contracts -> weakest-precondition obligations -> z3 5.1 / z3 4.8 / cvc5 raced per obligation"}],
"checks":[],"notes":"see DESIGN.md; known findings in known_findings.jsonl; seeded changes in seeded/ (seeded/replay_sweep.txt: which seeds get a failing input on the real code); a violation is replayed on the real code by the check itself (DESIGN.md section 3): when that succeeds the VIOLATION line carries no suffix and the replay file has failing_input and replay_files (dvc replay <file> re-runs it), otherwise the line ends in no-failing-input-found","not_applicable":[]}
for p in props:
    i=p['id']
    if i in claimed:
        c=claimed[i]
        m['checks'].append({"property_id":i,"quick_cmd":"./bin/dvc check %s --tier quick"%i,"thorough_cmd":"./bin/dvc check %s --tier thorough && scripts/selftest.sh %s"%(i,i),
          "evidence_file":"/verif/evidence/%s.json"%i,"replay_cmd_template":"./bin/dvc replay {path}","engine":"dvc",
          "level_claimed":{"category":"proof","text":c['text'],"design_ref":"DESIGN.md §4 "+i},
          "level_note":c['note'],"technique":"contract-based deductive verification (WP verification conditions from go/ssa, discharged by SMT)"})
    else:
        m['not_applicable'].append({"property_id":i,"reason":na_reasons.get(i,"check not built yet (see DESIGN.md)")})
json.dump(m,open('/verif/MANIFEST.json','w'),indent=1)
print("claimed:",sorted(claimed.keys()))
