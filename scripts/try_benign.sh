#!/bin/bash
# usage: try_benign.sh <dir with *.diff> : applies each behaviour-preserving patch to a scratch worktree of /repo HEAD and
# runs the quick checks of the properties whose contracts live in the touched files.  Any VIOLATION is a false alarm.
cd /verif
props_for() {
  case "$1" in
    triggering.go) echo "C01 C02";; lancero_source.go) echo "C04 C19";; mix.go) echo "C04";; client_updater.go) echo "C16";;
    edge_multi_trigger.go) echo "C08 C01";; ringbuffer/*) echo "C18";; data_source.go) echo "C02 C16 C06 C11 C10 C19 C20";;
    packets/*) echo "C15";; group_trigger.go) echo "C09";; phase_unwrap.go) echo "C12";; process_data.go) echo "C13 C01 C02 C08";;
    publish_data.go) echo "C05 C06";; ljh/*) echo "C05 C07";; off/*) echo "C05 C07";; abaco.go) echo "C03 C19";; rpc_server.go) echo "C11";;
    asyncbufio/*) echo "C07";; *) echo "";;
  esac
}
dir=$(realpath "$1")
for p in "$dir"/*.diff; do
  n=$(basename $p .diff)
  wt=/tmp/benignwt-$n
  git -C /repo worktree remove --force $wt >/dev/null 2>&1
  git -C /repo worktree add -q --detach $wt HEAD || continue
  if ! git -C $wt apply $p 2>/dev/null; then echo "$n: PATCH DOES NOT APPLY"; git -C /repo worktree remove --force $wt; continue; fi
  props=""
  for f in $(grep '^+++ b/' $p | sed 's/^+++ b\///'); do props="$props $(props_for $f)"; done
  props=$(echo $props | tr ' ' '\n' | sort -u | tr '\n' ' ')
  res=""
  for prop in $props; do
    DVC_EVIDENCE_DIR=/verif/work/trial-evidence ./bin/dvc check $prop --repo $wt > /tmp/benign.$n.$prop.out 2>&1; rc=$?
    v=$(grep -c '^VIOLATION' /tmp/benign.$n.$prop.out)
    res="$res $prop:exit=$rc,v=$v"
    if [ $rc -ne 0 ]; then grep '^VIOLATION' /tmp/benign.$n.$prop.out | sed 's/.*obligation=//' | head -3 | sed "s/^/    $n $prop: /"; fi
    rm -f /tmp/benign.$n.$prop.out
  done
  echo "$n:$res"
  git -C /repo worktree remove --force $wt >/dev/null 2>&1; rm -rf $wt
done
