#!/bin/bash
# usage: suite_check.sh : runs the repository's own test suite (guard off) on a scratch worktree of /repo HEAD
# and reports which baseline-passing tests are missing.
set -u
export GOFLAGS=-mod=mod GOPROXY=off GOSUMDB=off GOTOOLCHAIN=local
export GOPATH=$(go env GOPATH) GOCACHE=$(go env GOCACHE) GOMODCACHE=$(go env GOMODCACHE)
wt=/tmp/suite-check-wt
git -C /repo worktree remove --force $wt >/dev/null 2>&1
git -C /repo worktree add -q --detach $wt HEAD || exit 2
trap 'git -C /repo worktree remove --force $wt >/dev/null 2>&1; rm -rf $wt /tmp/suite-check-home' EXIT
mkdir -p /tmp/suite-check-home
cd $wt
flock /tmp/confirm-suite.lock bash -c "HOME=/tmp/suite-check-home go test -vet=off -count=1 -timeout 25m -json ./... 2>/dev/null" | python3 -c "
import sys,json
res={}
for l in sys.stdin:
    try: e=json.loads(l)
    except: continue
    if e.get('Test') and e.get('Action') in ('pass','fail') and '/' not in e['Test']:
        res[e['Package']+'::'+e['Test']]=e['Action']
base=json.load(open('/root/.vp/BASELINE.json'))
missing=[t for t in base['stable_pass'] if res.get(t)!='pass']
print('HEAD', '$(git -C /repo rev-parse --short HEAD)', 'baseline', len(base['stable_pass']), 'suite_missing', len(missing), missing[:8])
"
