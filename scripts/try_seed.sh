#!/bin/bash
# usage: try_seed.sh <seed-dir> <property> : apply a seeded change to /repo, run the property's quick check, undo.
set -u
d=$(readlink -f "$1"); prop=$2
if [ -n "$(git -C /repo status --porcelain)" ]; then echo "REFUSING: /repo working tree not clean"; exit 2; fi
git -C /repo apply "$d/patch.diff" || { echo "PATCH DOES NOT APPLY"; exit 2; }
cd /verif && DVC_EVIDENCE_DIR=/verif/work/trial-evidence ./bin/dvc check $prop > /tmp/try_seed.out 2>&1; rc=$?
git -C /repo checkout -- . ; git -C /repo clean -fdq
grep -c "^VIOLATION" /tmp/try_seed.out | sed "s/^/$(basename $d) on $prop: exit=$rc violations=/"
grep "^VIOLATION" /tmp/try_seed.out | sed 's/.*obligation=//' | head -8
