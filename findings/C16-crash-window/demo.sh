#!/bin/bash
# Kills the real saveState at its last rename system call (i.e. between "main -> .bak" and "tmp -> main")
# and shows what the next start-up would find.  usage: demo.sh [repo]   exit 1 = config file missing after the kill
set -u
repo=${1:-/repo}
here=$(cd "$(dirname "$0")" && pwd)
export GOFLAGS=-mod=mod GOPROXY=off GOSUMDB=off GOTOOLCHAIN=local
work=$(mktemp -d /tmp/c16demo.XXXXXX)
trap 'rm -rf "$work"' EXIT
mkdir -p "$work/cfg"
printf 'status:\n  nchannels: 2\n' > "$work/cfg/config.yaml"
cp "$work/cfg/config.yaml" "$work/old.yaml"
printf '{"Replace":{"%s/zz_crash_demo_test.go":"%s/zz_crash_demo_test.go"}}' "$repo" "$here" > "$work/ov.json"
(cd "$repo" && go test -c -overlay "$work/ov.json" -vet=off -o "$work/demo.test" . ) || { echo "build failed"; exit 2; }
# count rename-family calls first (no injection), on a scratch copy
cp -r "$work/cfg" "$work/cfg0"
DEMO_DIR="$work/cfg0" strace -f -e trace=rename,renameat,renameat2 -o "$work/trace0" "$work/demo.test" -test.run TestVerifCrashDemoSaveState >/dev/null 2>&1
sys=$(grep -o 'rename[a-z0-9]*' "$work/trace0" | head -1)
n=$(grep -c "$sys(" "$work/trace0")
echo "rename calls in an undisturbed run: $n ($sys); the last two belong to the save under test (earlier ones: the package's own test set-up)"
grep "$sys(" "$work/trace0" | tail -2 | sed 's/^/   /'
DEMO_DIR="$work/cfg" strace -f -e trace=$sys -e inject=$sys:signal=SIGKILL:when=$n -o "$work/trace1" "$work/demo.test" -test.run TestVerifCrashDemoSaveState >/dev/null 2>&1
echo "directory after a kill at the entry of the last rename:"; ls -la "$work/cfg" | sed 's/^/   /'
if [ ! -s "$work/cfg/config.yaml" ]; then
  echo "RESULT: config.yaml is MISSING (or empty) after the kill -- the next start-up creates an empty configuration"
  exit 1
fi
if cmp -s "$work/cfg/config.yaml" "$work/old.yaml"; then echo "RESULT: config.yaml is the complete OLD version"; else echo "RESULT: config.yaml exists ($(wc -c < "$work/cfg/config.yaml") bytes, new version)"; fi
exit 0
