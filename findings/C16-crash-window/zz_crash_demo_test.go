package dastard

// Demonstration for the C16 crash-window finding: runs the real saveState once on a config directory
// given by DEMO_DIR.  The driver script kills the process at its second rename system call.
import (
	"os"
	"path/filepath"
	"testing"

	"github.com/spf13/viper"
)

func TestVerifCrashDemoSaveState(t *testing.T) {
	dir := os.Getenv("DEMO_DIR")
	if dir == "" {
		t.Skip("DEMO_DIR not set")
	}
	main := filepath.Join(dir, "config.yaml")
	viper.SetConfigFile(main)
	if err := viper.ReadInConfig(); err != nil {
		t.Fatal(err)
	}
	saveState(map[string]interface{}{"STATUS": map[string]int{"Nchannels": 4}})
}
