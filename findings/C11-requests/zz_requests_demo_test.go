package dastard

// Demonstrations for two C11 findings, run against the real RPC server that the package's TestMain starts.
//  (1) ConfigureTriggers with a NEGATIVE channel index: before the fix the request closure indexes
//      processors[-1] inside the data loop and the whole server process dies.
//  (2) WriteComment while writing is active but the output directory has disappeared: os.Create fails, the closure
//      answers TWICE on the unbuffered result channel, the data loop blocks in the second send and every later
//      request hangs.
import (
	"os"
	"path/filepath"
	"testing"
	"time"
)

func verifStartSim(t *testing.T) func() {
	client, err := simpleClient()
	if err != nil {
		t.Fatal(err)
	}
	var okay bool
	simConfig := SimPulseSourceConfig{Nchan: 4, SampleRate: 10000.0, Pedestal: 3000.0, Amplitudes: []float64{10000.}, Nsamp: 1000}
	if err := client.Call("SourceControl.ConfigureSimPulseSource", &simConfig, &okay); err != nil {
		t.Fatal(err)
	}
	name := "SimPulseSource"
	if err := client.Call("SourceControl.Start", &name, &okay); err != nil {
		t.Fatal(err)
	}
	time.Sleep(300 * time.Millisecond)
	return func() {
		done := make(chan bool, 1)
		go func() { client.Call("SourceControl.Stop", name, &okay); done <- true }()
		select {
		case <-done:
		case <-time.After(3 * time.Second):
		}
		client.Close()
	}
}

func TestVerifNegativeChannelIndexDemo(t *testing.T) {
	stop := verifStartSim(t)
	defer stop()
	client, _ := simpleClient()
	defer client.Close()
	var okay bool
	state := FullTriggerState{ChannelIndices: []int{-1}, TriggerState: TriggerState{AutoTrigger: true, AutoDelay: 10 * time.Millisecond}}
	err := client.Call("SourceControl.ConfigureTriggers", &state, &okay)
	if err == nil {
		t.Fatalf("ConfigureTriggers with channel index -1 was accepted")
	}
	t.Logf("request answered with an error, as it should: %v", err)
}

// (3) START writing with a pixel map that has exactly one pixel per channel while the channel numbers start at 0
// (simulated sources): before the fix the data loop indexes Pixels[-1] and the server dies.
func TestVerifMapIndexDemo(t *testing.T) {
	dir, _ := os.MkdirTemp("", "verifc11map")
	defer os.RemoveAll(dir)
	mapfile := filepath.Join(dir, "four.cfg")
	os.WriteFile(mapfile, []byte("spacing: 520\n1 0 0 a\n2 0 1 b\n3 0 2 c\n4 0 3 d\n"), 0644)
	client, _ := simpleClient()
	defer client.Close()
	var okay bool
	if err := client.Call("MapServer.Load", &mapfile, &okay); err != nil {
		t.Fatalf("could not load the 4-pixel map: %v", err)
	}
	stop := verifStartSim(t)
	defer stop()
	wc := WriteControlConfig{Request: "Start", Path: dir, WriteLJH22: true}
	err := client.Call("SourceControl.WriteControl", &wc, &okay)
	t.Logf("WriteControl START answered: %v", err)
	if err == nil {
		t.Fatalf("START accepted although channel number 0 has no pixel in the map")
	}
}

func TestVerifWriteCommentDemo(t *testing.T) {
	stop := verifStartSim(t)
	defer stop()
	client, _ := simpleClient()
	defer client.Close()
	var okay bool
	dir, _ := os.MkdirTemp("", "verifc11")
	defer os.RemoveAll(dir)
	wc := WriteControlConfig{Request: "Start", Path: dir, WriteLJH22: true}
	if err := client.Call("SourceControl.WriteControl", &wc, &okay); err != nil {
		t.Fatalf("could not start writing: %v", err)
	}
	// the run directory disappears (unmounted disk, clean-up script, ...)
	matches, _ := filepath.Glob(filepath.Join(dir, "*"))
	for _, m := range matches {
		os.RemoveAll(m)
	}
	comment := "hello"
	err := client.Call("SourceControl.WriteComment", &comment, &okay)
	t.Logf("WriteComment answered: %v", err)
	if err == nil {
		t.Fatalf("WriteComment into a missing directory reported success")
	}
	// the next request must still be answered
	answered := make(chan error, 1)
	go func() {
		c2, _ := simpleClient()
		defer c2.Close()
		var ok2 bool
		answered <- c2.Call("SourceControl.WriteComment", &comment, &ok2)
	}()
	select {
	case e := <-answered:
		t.Logf("next request answered: %v", e)
	case <-time.After(4 * time.Second):
		t.Fatalf("after the failed WriteComment the next request is never answered: the data loop is stuck in a second send on queuedResults")
	}
}
