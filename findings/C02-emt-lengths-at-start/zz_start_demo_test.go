package dastard

// Demonstration for the C02 start-up finding: PrepareRun creates the processors with NSamples/NPresamples but
// (before the fix) leaves the copy of those lengths inside EMTState at zero, and TrimStream keeps
// 2*EMTState.nsamp+10 = 10 samples.  The last nsamp-npre samples of every block cannot be searched until the next
// block arrives -- and by then they have been trimmed away: an edge there is never triggered.
import (
	"testing"
)

func TestVerifStartLengthsDemo(t *testing.T) {
	const nchan, npre, nsamp, blocklen = 1, 100, 400, 1000
	src := NewTriangleSource()
	config := TriangleSourceConfig{Nchan: nchan, SampleRate: 10000.0, Min: 100, Max: 200}
	if err := src.Configure(&config); err != nil {
		t.Fatal(err)
	}
	if err := src.PrepareChannels(); err != nil {
		t.Fatal(err)
	}
	if err := src.PrepareRun(npre, nsamp); err != nil {
		t.Fatal(err)
	}
	dsp := src.processors[0]
	dsp.EdgeTrigger, dsp.EdgeRising, dsp.EdgeLevel = true, true, 500 // set directly: no ConfigureTrigger call, as after a restore
	t.Logf("after PrepareRun: NSamples=%d NPresamples=%d, EMTState.nsamp=%d EMTState.npre=%d, samples kept on trim=%d",
		dsp.NSamples, dsp.NPresamples, dsp.EMTState.nsamp, dsp.EMTState.npre, dsp.NToKeepOnTrim())
	// one clean pulse whose edge is 150 samples before the end of block 1 (inside the unsearchable tail of 300)
	edge := blocklen - 150
	total := 0
	for b := 0; b < 3; b++ {
		raw := make([]RawType, blocklen)
		for i := range raw {
			raw[i] = 1000
			if b == 0 && i >= edge {
				raw[i] = 5000
			}
			if b > 0 {
				raw[i] = 5000
			}
		}
		seg := &DataSegment{rawData: raw, framesPerSample: 1, firstFrameIndex: FrameIndex(100000 + b*blocklen), framePeriod: 100000}
		dsp.stream.AppendSegment(seg)
		recs := dsp.TriggerData()
		total += len(recs)
		dsp.TrimStream()
	}
	t.Logf("records for one clean pulse with its edge %d samples before the end of the first block: %d", blocklen-edge, total)
	if total != 1 {
		t.Fatalf("the pulse gave %d records, want 1", total)
	}
}
