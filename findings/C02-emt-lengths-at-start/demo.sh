#!/bin/bash
# usage: demo.sh [repo] <TestName> : exit != 0 if the demonstration fails on that tree
set -u
repo=${1:-/repo}; tst=${2:-TestVerifStartLengthsDemo}
here=$(cd "$(dirname "$0")" && pwd)
export GOFLAGS=-mod=mod GOPROXY=off GOSUMDB=off GOTOOLCHAIN=local
export GOPATH=$(go env GOPATH) GOCACHE=$(go env GOCACHE) GOMODCACHE=$(go env GOMODCACHE)
work=$(mktemp -d /tmp/c02demo.XXXXXX)
trap 'rm -rf "$work"' EXIT
export HOME="$work/home"; mkdir -p "$HOME"
printf '{"Replace":{"%s/zz_start_demo_test.go":"%s/zz_start_demo_test.go"}}' "$repo" "$here" > "$work/ov.json"
cd "$repo" && go test -overlay "$work/ov.json" -vet=off -count=1 -timeout 120s -run "$tst" -v . 2>&1 | grep -E "after PrepareRun|records for|gave|panic:|index out of range|^ok|^FAIL|^---|exit status" | head -12
exit ${PIPESTATUS[0]}
