#!/bin/bash
# usage: demo.sh [repo] : exit 1 if TriggerData panics on an edge at the first searchable sample after a reset
set -u
repo=${1:-/repo}
here=$(cd "$(dirname "$0")" && pwd)
export GOFLAGS=-mod=mod GOPROXY=off GOSUMDB=off GOTOOLCHAIN=local
export GOPATH=$(go env GOPATH) GOCACHE=$(go env GOCACHE) GOMODCACHE=$(go env GOMODCACHE)
work=$(mktemp -d /tmp/c08demo.XXXXXX)
trap 'rm -rf "$work"' EXIT
export HOME="$work/home"; mkdir -p "$HOME"
printf '{"Replace":{"%s/zz_kink_demo_test.go":"%s/zz_kink_demo_test.go"}}' "$repo" "$here" > "$work/ov.json"
cd "$repo" && go test -overlay "$work/ov.json" -vet=off -count=1 -timeout 120s -run 'TestVerifKinkFirstSampleDemo' -v . 2>&1 | grep -E "panicked|record:|^ok|^FAIL|^---"
exit ${PIPESTATUS[0]}
