package dastard

// Demonstration for the C08 finding: an edge on the first searchable sample after a (re)configuration.
// The pulse starts to rise one sample BEFORE the first searchable sample (index npre-1), so the edge
// criterion first holds at index npre and the kink fit moves the trigger back to npre-1; the record would then
// start at index -1 of the window.  Before the fix this panics (slice bounds out of range [-1:]).
import "testing"

func TestVerifKinkFirstSampleDemo(t *testing.T) {
	const npre, nsamp = 8, 20
	raw := make([]RawType, 200)
	for i := range raw {
		switch {
		case i < npre: // flat up to and including index npre-1: the kink
			raw[i] = 100
		case i < npre+8:
			raw[i] = RawType(100 + 100*(i-npre+1)) // rises from index npre on
		default:
			raw[i] = 900
		}
	}
	broker := NewTriggerBroker(1)
	dsp := NewDataStreamProcessor(0, broker, npre, nsamp)
	dsp.EdgeMulti = true
	dsp.EMTState = EMTState{threshold: 50, mode: EMTRecordsTwoFullLength, nmonotone: 2, npre: npre, nsamp: nsamp, enableZeroThreshold: true}
	dsp.EMTState.reset()
	seg := &DataSegment{rawData: raw, framesPerSample: 1, firstFrameIndex: 1000}
	dsp.stream.AppendSegment(seg)
	defer func() {
		if r := recover(); r != nil {
			t.Fatalf("TriggerData panicked on an edge at the first searchable sample: %v", r)
		}
	}()
	recs := dsp.TriggerData()
	for _, r := range recs {
		t.Logf("record: trigFrame=%d presamples=%d len=%d", r.trigFrame, r.presamples, len(r.data))
	}
}
