package dastard

// Demonstration for the C08 frame-narrowing finding: the same pulse train gives records when the window
// starts at frame 1000, and (before the fix) NONE when it starts at frame 10^12 -- after a reset the
// first index to inspect is computed as int32(0 - firstFrameIndex), which wraps for frame numbers >= 2^31.
import "testing"

func verifNarrowRecords(first FrameIndex) int {
	const npre, nsamp = 8, 20
	raw := make([]RawType, 400)
	for i := range raw {
		raw[i] = 100
	}
	for _, start := range []int{60, 160, 260} { // three well separated pulses
		for j := 0; j < 30; j++ {
			raw[start+j] = RawType(100 + 50*(j+1))
		}
	}
	broker := NewTriggerBroker(1)
	dsp := NewDataStreamProcessor(0, broker, npre, nsamp)
	dsp.EdgeMulti = true
	dsp.EMTState = EMTState{threshold: 40, mode: EMTRecordsTwoFullLength, nmonotone: 2, npre: npre, nsamp: nsamp, enableZeroThreshold: false}
	dsp.EMTState.reset()
	seg := &DataSegment{rawData: raw, framesPerSample: 1, firstFrameIndex: first}
	dsp.stream.AppendSegment(seg)
	return len(dsp.TriggerData())
}

func TestVerifFrameNarrowingDemo(t *testing.T) {
	low := verifNarrowRecords(1000)
	high := verifNarrowRecords(1000000000000)
	t.Logf("record: %d records with firstFrameIndex=1000, %d records with firstFrameIndex=10^12", low, high)
	if low == 0 || high != low {
		t.Fatalf("panicked or lost pulses: same data gives %d records at frame 1000 but %d at frame 10^12", low, high)
	}
}
