package dastard

// Demonstrations for two C04 findings on the real LanceroSource.distributeData.
//  (1) External trigger with more than one column: the card delivers words in readout order (row-major: all columns
//      of row 0, then row 1, ...); the trigger bit is the same in every column of a row.  The scan must look at
//      the feedback word of (row r, column 0), i.e. readout index 2*r*ncols+1, but (before the fix) it looks at
//      index 2*r+1, so with 2 columns a trigger that rises in physical row 3 is reported for row 6 (or not in the
//      frame it rose in at all).
//  (2) After a detected gap the block is stamped nextFrameNum+dropped but the running counter advances only by the
//      frames delivered, so the NEXT block starts before the end of this one: frame numbers go backwards.
import (
	"testing"
	"time"
)

func verifLancero(ncols, nrows int) *LanceroSource {
	ls := new(LanceroSource)
	dev := &LanceroDevice{devnum: 0, ncols: ncols, nrows: nrows}
	ls.devices = map[int]*LanceroDevice{0: dev}
	ls.active = []*LanceroDevice{dev}
	ls.nchan = 2 * ncols * nrows
	ls.sampleRate = 100000.0
	ls.samplePeriod = 10 * time.Microsecond
	ls.updateChanOrderMap()
	return ls
}

func verifBlock(ls *LanceroSource, nframes int, set func(readIdx, frame int) RawType) BuffersChanType {
	copies := make([][]RawType, ls.nchan)
	for r := range copies {
		copies[r] = make([]RawType, nframes)
		for f := 0; f < nframes; f++ {
			copies[r][f] = set(r, f)
		}
	}
	return BuffersChanType{datacopies: copies, lastSampleTime: time.Now(), timeDiff: time.Millisecond, totalBytes: nframes * ls.nchan * 2}
}

func TestVerifExtTriggerRowDemo(t *testing.T) {
	const ncols, nrows, nframes = 2, 8, 4
	ls := verifLancero(ncols, nrows)
	const trigFrame, trigRow = 1, 3 // the trigger input rises in frame 1 while row 3 is being read out, and stays high
	high := func(frame, row int) bool { return frame > trigFrame || (frame == trigFrame && row >= trigRow) }
	msg := verifBlock(ls, nframes, func(readIdx, frame int) RawType {
		row := (readIdx / 2) / ncols // readout order is row-major
		if readIdx%2 == 1 && high(frame, row) {
			return 0x1002 // feedback word with the external-trigger bit set (same in every column)
		}
		return 0x1000
	})
	block := ls.distributeData(msg)
	want := int64(trigFrame*nrows + trigRow)
	t.Logf("external trigger row counts reported: %v, want exactly [%d] (frame %d, row %d, %d rows)", block.externalTriggerRowcounts, want, trigFrame, trigRow, nrows)
	if len(block.externalTriggerRowcounts) != 1 || block.externalTriggerRowcounts[0] != want {
		t.Fatalf("external trigger reported as %v, want [%d]", block.externalTriggerRowcounts, want)
	}
}

func TestVerifFrameNumbersAfterGapDemo(t *testing.T) {
	const ncols, nrows, nframes = 1, 4, 10
	ls := verifLancero(ncols, nrows)
	flat := func(readIdx, frame int) RawType { return 0x1000 }
	t0 := time.Now()
	b1 := verifBlock(ls, nframes, flat)
	b1.lastSampleTime = t0
	blk1 := ls.distributeData(b1)
	// 10 frames are delivered 1 ms later than they should be: 100 frames were lost in between
	b2 := verifBlock(ls, nframes, flat)
	b2.lastSampleTime = t0.Add(time.Duration(nframes+100) * ls.samplePeriod)
	b2.dataDropDetected = true
	blk2 := ls.distributeData(b2)
	b3 := verifBlock(ls, nframes, flat)
	b3.lastSampleTime = b2.lastSampleTime.Add(time.Duration(nframes) * ls.samplePeriod)
	blk3 := ls.distributeData(b3)
	f1, f2, f3 := blk1.segments[0].firstFrameIndex, blk2.segments[0].firstFrameIndex, blk3.segments[0].firstFrameIndex
	t.Logf("first frame of blocks 1,2,3: %d, %d, %d (each block has %d frames; block 2 follows a gap of %d frames)", f1, f2, f3, nframes, blk2.segments[0].droppedFrames)
	if f3 < f2+FrameIndex(nframes) {
		t.Fatalf("frame numbers go backwards: block 2 covers frames %d..%d but block 3 starts at frame %d", f2, f2+FrameIndex(nframes)-1, f3)
	}
}
