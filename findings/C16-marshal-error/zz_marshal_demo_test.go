package dastard

// Demonstration for the C16 replay finding: a status update whose state cannot be JSON-encoded is not
// published, but (before the fix) it overwrote the replay cache, so SENDALL replays an EMPTY payload for
// that topic instead of the most recent message actually published.
import (
	"math"
	"testing"
	"time"

	"github.com/pebbe/zmq4"
)

func TestVerifMarshalErrorDemo(t *testing.T) {
	sub, err := zmq4.NewSocket(zmq4.SUB)
	if err != nil {
		t.Fatal(err)
	}
	defer sub.Close()
	sub.SetSubscribe("VERIFDEMO")
	sub.SetRcvtimeo(3 * time.Second)
	if err := sub.Connect("tcp://localhost:" + itoaDemo(Ports.Status)); err != nil {
		t.Fatal(err)
	}
	time.Sleep(500 * time.Millisecond)
	clientMessageChan <- ClientUpdate{tag: "VERIFDEMO", state: map[string]int{"value": 1}}
	first, err := sub.RecvMessage(0)
	if err != nil || len(first) != 2 {
		t.Fatalf("did not receive the first message: %v %v", first, err)
	}
	clientMessageChan <- ClientUpdate{tag: "VERIFDEMO", state: math.NaN()} // json.Marshal fails: nothing is published
	clientMessageChan <- ClientUpdate{tag: "SENDALL", state: 0}
	replay, err := sub.RecvMessage(0)
	if err != nil || len(replay) != 2 {
		t.Fatalf("did not receive a replay: %v %v", replay, err)
	}
	t.Logf("most recent published message: %q; replayed by SENDALL: %q", first[1], replay[1])
	if replay[1] != first[1] {
		t.Fatalf("SENDALL replayed %q for topic VERIFDEMO, but the most recent message published was %q", replay[1], first[1])
	}
}

func itoaDemo(n int) string {
	s := ""
	for n > 0 {
		s = string(rune('0'+n%10)) + s
		n /= 10
	}
	return s
}
