package vc

// Symbolic execution of one go/ssa function (naive form) into verification conditions.

import (
	"os"
	"fmt"
	"go/constant"
	"go/token"
	"go/types"
	"math/big"
	"sort"
	"strings"

	"golang.org/x/tools/go/ssa"
)

type Obligation struct {
	Name   string
	Kind   string // index, slice, nil, div, make, assert, requires, ensures, invariant-entry, invariant-preserve, frame, panic, typeassert, decreases
	Label  string
	Guard  string
	Expr   string
	Pos    token.Position
	Props  []string
	NItems int // number of items preceding this obligation
	Fn     string
	Src    string // source text of the clause (for reports)
	Cover  bool   // reachability cover: expected SAT
	Lean   string // when non-empty: a Lean theorem to be checked instead of an SMT query
}

type Item struct {
	Text string // SMT command (define-fun / assert / declare)
}

type State struct {
	m map[string]string
}

func (st *State) clone() *State {
	n := &State{m: make(map[string]string, len(st.m))}
	for k, v := range st.m {
		n.m[k] = v
	}
	return n
}

type addrKind int

const (
	aCell      addrKind = iota // local cell (with optional path)
	aHeapField                 // comp[ref]
	aRefStruct                 // struct object at ref
	aElem                      // slice/array backing element (non-struct elem)
	aHeapCell                  // Cell:T[ref]
	aArr                       // pointer to array == backing array ref
	aGlobal
)

type pathElem struct {
	field int    // field index, or -1 for array index
	idx   string // array index term
	typ   types.Type
}

type Addr struct {
	kind addrKind
	key  string // cell key / global key
	path []pathElem
	comp string
	ref  string
	typ  types.Type // pointee type
	arr  string
	idx  string
	n    int64 // array length for aArr
}

type loopInfo struct {
	header   *ssa.BasicBlock
	ordinal  int
	body     map[int]bool
	backSrc  []*ssa.BasicBlock
	modified map[string]bool
	spec     *LoopSpec
	pre      *State
	preAlloc string
	iterAlloc string
	decrName string
}

// inlineRet is one return of an inlined callee.
type inlineRet struct {
	guard string
	vals  []string
	st    *State
}

type FuncGen struct {
	concrete    bool     // replay: no execution, the post state is unconstrained (see replay.go)
	postPhase   bool     // concrete mode: lookups in the current state create fresh post-state constants
	concreteRes []string // concrete mode: the result constants
	inlineCount int
	cellPrefix  string       // distinguishes the cells of an inlined callee from the caller's
	inlineDepth int          // > 0 while executing an inlined callee
	inlineRets  *[]inlineRet // where an inlined callee records its returns
	baseGuard   string       // reachability of an inlined callee's entry block
	paramAlias map[string]*ssa.Parameter // recorded parameter names that were renamed (see applyRecordedNames)
	rng map[ssa.Value][2]*big.Int // static intervals of integer values (see rangeOf)
	env   *Env
	fn    *ssa.Function
	key   string
	c     *Contract
	spec  *SpecFile
	sc    *Script
	items []Item
	obls  []*Obligation

	vals  map[ssa.Value]string
	tups  map[ssa.Value][]string
	addrs map[ssa.Value]*Addr

	cellSort map[string]string
	cellType map[string]types.Type
	cellOf   map[*ssa.Alloc]string
	cellName map[string][]*ssa.Alloc // source name -> allocs

	in, out map[int]*State
	reach   map[int]string
	edges   map[[2]int]string
	loops   map[int]*loopInfo // by header block index
	order   []*ssa.BasicBlock
	cur     *ssa.BasicBlock
	st      *State
	guard   string
	entry   *State
	oblN    map[string]int
	defers  []*ssa.Defer
	curLoop []*loopInfo // loops enclosing current block

	interior    map[string]bool
	entryLocs   []location
	nilChecked  map[string]*ssa.BasicBlock
	assumptions map[string]bool // human-readable assumptions used
	warnings    []string
	props       []string
	resultNames []string
	sentGhost   bool
	copyOut     *[]func()
	closureBindings map[string]sval
	visitedOf   map[*ssa.Range]string
	heapLocals  map[string][]*ssa.Alloc
	retStates   int
}

func (g *FuncGen) emit(text string) { g.items = append(g.items, Item{text}) }

func (g *FuncGen) def(prefix, sort, expr string) string {
	name := q(g.sc.fresh(prefix))
	if sort == "Slice" || sort == "Iface" || strings.HasPrefix(sort, "(Array") || strings.HasPrefix(sort, "|S:") {
		// structured values may end up inside quantifier patterns: name them with a declared constant
		g.emit(fmt.Sprintf("(declare-const %s %s)", name, sort))
		g.emit(fmt.Sprintf("(assert (= %s %s))", name, expr))
		return name
	}
	g.emit(fmt.Sprintf("(define-fun %s () %s %s)", name, sort, expr))
	return name
}

// defConst introduces a declared constant equal to expr (usable inside quantifier patterns,
// unlike define-fun names which are macro-expanded).
func (g *FuncGen) defConst(prefix, sort, expr string) string {
	name := q(g.sc.fresh(prefix))
	g.emit(fmt.Sprintf("(declare-const %s %s)", name, sort))
	g.emit(fmt.Sprintf("(assert (= %s %s))", name, expr))
	return name
}

func (g *FuncGen) declare(prefix, sort string) string {
	name := q(g.sc.fresh(prefix))
	g.emit(fmt.Sprintf("(declare-const %s %s)", name, sort))
	return name
}

func (g *FuncGen) assume(expr string) {
	if expr == "true" || expr == "" {
		return
	}
	if g.guard == "true" {
		g.emit(fmt.Sprintf("(assert %s)", expr))
	} else {
		g.emit(fmt.Sprintf("(assert (=> %s %s))", g.guard, expr))
	}
}

func (g *FuncGen) assumeAll(es []string) {
	for _, e := range es {
		g.assume(e)
	}
}

func and(es ...string) string {
	var f []string
	for _, e := range es {
		if e == "true" || e == "" {
			continue
		}
		f = append(f, e)
	}
	switch len(f) {
	case 0:
		return "true"
	case 1:
		return f[0]
	}
	return "(and " + strings.Join(f, " ") + ")"
}

func or(es ...string) string {
	var f []string
	for _, e := range es {
		if e == "false" || e == "" {
			continue
		}
		f = append(f, e)
	}
	switch len(f) {
	case 0:
		return "false"
	case 1:
		return f[0]
	}
	return "(or " + strings.Join(f, " ") + ")"
}

func (g *FuncGen) pos(p token.Pos) token.Position {
	if !p.IsValid() {
		return token.Position{}
	}
	return g.env.Fset.Position(p)
}

func (g *FuncGen) oblig(kind, label, expr string, p token.Pos, props []string, src string) *Obligation {
	if g.c != nil && g.c.NoSafety && isSafetyKind(kind) {
		return nil
	}
	if g.c != nil && g.c.Opts["restriction_only"] != "" && (kind == "requires" || kind == "frame" || strings.HasPrefix(kind, "loop-frame") || isSafetyKind(kind)) {
		// a restriction-only contract checks just its own cut / ensures / option clauses (e.g. an ordering of calls);
		// callee preconditions, safety and frame of this function are NOT checked here (recorded as an assumption)
		g.assumptions["restriction-only contract for "+g.key+": callee preconditions, memory safety and frame of this function are not checked"] = true
		return nil
	}
	if g.c != nil && g.c.Opts["noframe"] != "" && (kind == "frame" || strings.HasPrefix(kind, "loop-frame")) {
		// restriction-only contracts (e.g. queued_only) do not state a frame
		return nil
	}
	g.oblN[kind]++
	name := fmt.Sprintf("%s/%s#%d", g.key, kind, g.oblN[kind])
	if label != "" {
		name = fmt.Sprintf("%s/%s{%s}", g.key, kind, label)
		if g.oblNamed(name) {
			name = fmt.Sprintf("%s/%s{%s}#%d", g.key, kind, label, g.oblN[kind])
		}
	}
	if props == nil {
		props = g.props
		if g.c != nil && isSafetyKind(kind) && g.c.Opts["safety_props"] != "" {
			props = strings.Fields(strings.ReplaceAll(g.c.Opts["safety_props"], ",", " "))
		}
	}
	ob := &Obligation{Name: name, Kind: kind, Label: label, Guard: g.guard, Expr: expr, Pos: g.pos(p), Props: props, NItems: len(g.items), Fn: g.key, Src: src}
	g.obls = append(g.obls, ob)
	if isSafetyKind(kind) && kind != "panic" {
		// execution continues past this point only if the check succeeded
		g.assume(expr)
	}
	return ob
}

func (g *FuncGen) oblNamed(n string) bool {
	for _, o := range g.obls {
		if o.Name == n {
			return true
		}
	}
	return false
}

func isSafetyKind(k string) bool {
	switch k {
	case "index", "slice", "nil", "div", "make", "typeassert", "panic", "shift":
		return true
	}
	return false
}

// ---------- state access ----------

func (g *FuncGen) initialVar(key string) string {
	name := q(key + "@0")
	sort := g.keySort(key)
	g.sc.declConst(name, sort)
	return name
}

func (g *FuncGen) keySort(key string) string {
	if key == "alloc" {
		return "Int"
	}
	if s, ok := g.cellSort[key]; ok {
		return s
	}
	return g.sc.compSort(key)
}

func (g *FuncGen) get(st *State, key string) string {
	if t, ok := st.m[key]; ok {
		return t
	}
	if g.concrete && g.postPhase && st == g.st {
		name := q(key + "@post")
		g.sc.declConst(name, g.keySort(key))
		st.m[key] = name
		return name
	}
	t := g.initialVar(key)
	return t
}

func (g *FuncGen) set(key, term string) {
	for _, l := range g.curLoop {
		if !l.modified[key] {
			panic(fmt.Sprintf("internal: write to %s inside loop %d not in its modified set", key, l.ordinal))
		}
	}
	g.st.m[key] = term
}

// newVersion defines a new version of a component/cell as expr.
func (g *FuncGen) update(key, expr string) {
	g.set(key, g.defState(key, expr))
}

// defState names a new version of a state key.  Heap components (arrays) get a declared constant
// (usable inside quantifier patterns); scalars and cells a define-fun.
func (g *FuncGen) defState(key, expr string) string {
	srt := g.keySort(key)
	if strings.HasPrefix(srt, "(Array") {
		return g.defConst(key, srt, expr)
	}
	return g.def(key, srt, expr)
}

func (g *FuncGen) havoc(key string) string {
	name := g.declare(key, g.keySort(key))
	g.set(key, name)
	return name
}

func (g *FuncGen) alloc() string { return g.get(g.st, "alloc") }

// freshRef allocates a new reference.
func (g *FuncGen) freshRef() string {
	r := g.def("ref", "Int", g.alloc())
	g.emit(fmt.Sprintf("(assert (= (rootref %s) %s))", r, r))
	g.update("alloc", fmt.Sprintf("(+ %s 1)", g.alloc()))
	return r
}

// ---------- values ----------

func (g *FuncGen) val(v ssa.Value) string {
	if t, ok := g.vals[v]; ok {
		return t
	}
	switch x := v.(type) {
	case *ssa.Const:
		return g.constTerm(x)
	case *ssa.Function:
		return fmt.Sprintf("%d", 1000000+g.sc.typeID("func:"+x.String()))
	case *ssa.Global:
		// address of a global used as value
		return fmt.Sprintf("%d", 1000+g.sc.typeID("global:"+x.String()))
	case *ssa.Builtin:
		return "0"
	}
	if a, ok := g.addrs[v]; ok {
		switch a.kind {
		case aRefStruct:
			return a.ref
		case aArr:
			return a.ref
		case aHeapCell:
			return a.ref
		}
		unsup("address %s used as a value (kind %d) in %s", v.Name(), a.kind, g.key)
	}
	unsup("no value for %s (%T) in %s", v.Name(), v, g.key)
	return ""
}

func (g *FuncGen) constTerm(c *ssa.Const) string {
	t := c.Type()
	if c.Value == nil {
		return g.sc.zero(t)
	}
	switch {
	case isBool(t):
		if constant.BoolVal(c.Value) {
			return "true"
		}
		return "false"
	case isString(t):
		return g.sc.strConst(constant.StringVal(c.Value))
	case isFloat(t):
		return realConst(c.Value)
	default:
		if _, ok := isInt(t); ok {
			v, ok := new(big.Int).SetString(c.Value.ExactString(), 10)
			if !ok {
				unsup("int const %s", c.Value)
			}
			return smtInt(v)
		}
	}
	unsup("constant of type %s", t)
	return ""
}

func realConst(v constant.Value) string {
	r := constant.ToFloat(v)
	num := constant.Num(r)
	den := constant.Denom(r)
	if num.Kind() == constant.Int && den.Kind() == constant.Int {
		n, _ := new(big.Int).SetString(num.ExactString(), 10)
		d, _ := new(big.Int).SetString(den.ExactString(), 10)
		if n != nil && d != nil {
			neg := n.Sign() < 0
			if neg {
				n = new(big.Int).Neg(n)
			}
			s := fmt.Sprintf("(/ %s.0 %s.0)", n.String(), d.String())
			if d.Cmp(big.NewInt(1)) == 0 {
				s = n.String() + ".0"
			}
			if neg {
				s = "(- " + s + ")"
			}
			return s
		}
	}
	f, _ := constant.Float64Val(v)
	br := new(big.Rat)
	br.SetFloat64(f)
	neg := br.Sign() < 0
	if neg {
		br.Neg(br)
	}
	s := fmt.Sprintf("(/ %s.0 %s.0)", br.Num().String(), br.Denom().String())
	if neg {
		s = "(- " + s + ")"
	}
	return s
}

// ---------- address handling ----------

func (g *FuncGen) addrOf(v ssa.Value) *Addr {
	if a, ok := g.addrs[v]; ok {
		return a
	}
	if gl, ok := v.(*ssa.Global); ok {
		key := "G:" + gl.String()
		et := deref(gl.Type())
		if _, isS := isStruct(et); isS {
			// global struct: treat as an object at a fixed reference
			ref := fmt.Sprintf("%d", 1000+g.sc.typeID("global:"+gl.String()))
			return &Addr{kind: aRefStruct, ref: ref, typ: et}
		}
		if _, ok := g.cellSort[key]; !ok {
			g.cellSort[key] = g.sc.sortOf(et)
			g.cellType[key] = et
		}
		return &Addr{kind: aGlobal, key: key, typ: et}
	}
	pt := deref(v.Type())
	if pt == nil {
		unsup("addrOf non-pointer %s", v.Type())
	}
	term := g.val(v)
	return g.addrFromRef(term, pt)
}

func (g *FuncGen) addrFromRef(term string, pt types.Type) *Addr {
	if _, ok := isStruct(pt); ok {
		return &Addr{kind: aRefStruct, ref: term, typ: pt}
	}
	if at, ok := pt.Underlying().(*types.Array); ok {
		return &Addr{kind: aArr, ref: term, typ: pt, n: at.Len()}
	}
	return &Addr{kind: aHeapCell, comp: g.sc.cellComp(pt), ref: term, typ: pt}
}

// loadStruct reads the whole struct value located at ref.
func (g *FuncGen) loadStruct(st *State, ref string, t types.Type) string {
	s, _ := isStruct(t)
	var fs []string
	for i := 0; i < s.NumFields(); i++ {
		ft := s.Field(i).Type()
		if _, ok := isStruct(ft); ok {
			r, ax := g.sc.fldRef(t, i, ref)
			g.assumeAll(ax)
			fs = append(fs, g.loadStruct(st, r, ft))
		} else {
			fs = append(fs, fmt.Sprintf("(select %s %s)", g.get(st, g.sc.fieldCompReg(t, i)), ref))
		}
	}
	return g.sc.mkStruct(t, fs)
}

func (g *FuncGen) storeStruct(ref string, t types.Type, v string) {
	s, _ := isStruct(t)
	for i := 0; i < s.NumFields(); i++ {
		ft := s.Field(i).Type()
		fv := fmt.Sprintf("(%s %s)", g.sc.fieldSel(t, i), v)
		if _, ok := isStruct(ft); ok {
			r, ax := g.sc.fldRef(t, i, ref)
			g.assumeAll(ax)
			g.storeStruct(r, ft, fv)
		} else {
			k := g.sc.fieldCompReg(t, i)
			g.update(k, fmt.Sprintf("(store %s %s %s)", g.get(g.st, k), ref, fv))
		}
	}
}

func (g *FuncGen) pathGet(base string, baseT types.Type, path []pathElem) string {
	cur := base
	t := baseT
	for _, pe := range path {
		if pe.field >= 0 {
			cur = fmt.Sprintf("(%s %s)", g.sc.fieldSel(t, pe.field), cur)
			st, _ := isStruct(t)
			t = st.Field(pe.field).Type()
		} else {
			cur = fmt.Sprintf("(select %s %s)", cur, pe.idx)
			t = t.Underlying().(*types.Array).Elem()
		}
	}
	return cur
}

func (g *FuncGen) pathSet(base string, baseT types.Type, path []pathElem, v string) string {
	if len(path) == 0 {
		return v
	}
	pe := path[0]
	if pe.field >= 0 {
		st, _ := isStruct(baseT)
		var fs []string
		for i := 0; i < st.NumFields(); i++ {
			sel := fmt.Sprintf("(%s %s)", g.sc.fieldSel(baseT, i), base)
			if i == pe.field {
				fs = append(fs, g.pathSet(sel, st.Field(i).Type(), path[1:], v))
			} else {
				fs = append(fs, sel)
			}
		}
		return g.sc.mkStruct(baseT, fs)
	}
	et := baseT.Underlying().(*types.Array).Elem()
	return fmt.Sprintf("(store %s %s %s)", base, pe.idx, g.pathSet(fmt.Sprintf("(select %s %s)", base, pe.idx), et, path[1:], v))
}

func (g *FuncGen) load(a *Addr) string {
	switch a.kind {
	case aCell, aGlobal:
		base := g.get(g.st, a.key)
		return g.pathGet(base, g.cellType[a.key], a.path)
	case aHeapField:
		return fmt.Sprintf("(select %s %s)", g.get(g.st, a.comp), a.ref)
	case aRefStruct:
		return g.loadStruct(g.st, a.ref, a.typ)
	case aElem:
		return fmt.Sprintf("(select (select %s %s) %s)", g.get(g.st, a.comp), a.arr, a.idx)
	case aHeapCell:
		return fmt.Sprintf("(select %s %s)", g.get(g.st, a.comp), a.ref)
	case aArr:
		et := a.typ.Underlying().(*types.Array).Elem()
		return fmt.Sprintf("(select %s %s)", g.get(g.st, g.sc.elemComp(et)), a.ref)
	}
	panic("load: bad addr kind")
}

func (g *FuncGen) store(a *Addr, v string) {
	switch a.kind {
	case aCell, aGlobal:
		if len(a.path) == 0 {
			g.update(a.key, v)
		} else {
			base := g.get(g.st, a.key)
			g.update(a.key, g.pathSet(base, g.cellType[a.key], a.path, v))
		}
	case aHeapField:
		g.update(a.comp, fmt.Sprintf("(store %s %s %s)", g.get(g.st, a.comp), a.ref, v))
	case aRefStruct:
		vv := g.def("sv", g.sc.sortOf(a.typ), v)
		g.storeStruct(a.ref, a.typ, vv)
	case aElem:
		e := g.get(g.st, a.comp)
		g.update(a.comp, fmt.Sprintf("(store %s %s (store (select %s %s) %s %s))", e, a.arr, e, a.arr, a.idx, v))
	case aHeapCell:
		g.update(a.comp, fmt.Sprintf("(store %s %s %s)", g.get(g.st, a.comp), a.ref, v))
	case aArr:
		et := a.typ.Underlying().(*types.Array).Elem()
		k := g.sc.elemComp(et)
		g.update(k, fmt.Sprintf("(store %s %s %s)", g.get(g.st, k), a.ref, v))
	default:
		panic("store: bad addr kind")
	}
}

// assumeValid emits well-formedness facts about a loaded value.
func (g *FuncGen) assumeValid(t types.Type, term string) {
	for _, c := range g.sc.valid(t, term, g.alloc(), 0) {
		g.assume(c)
	}
}

// ---------- main entry ----------

type FuncResult struct {
	G           *FuncGen // kept only when Env.KeepGen is set (replay)
	Key         string
	Fn          *ssa.Function
	Prelude     string
	Items       []Item
	Obls        []*Obligation
	Assumptions []string
	Warnings    []string
	Unsupported string
	LoopLines   []string
}

func (env *Env) GenFunc(fn *ssa.Function, key string, c *Contract, spec *SpecFile) (res *FuncResult) {
	g := &FuncGen{env: env, fn: fn, key: key, c: c, spec: spec, sc: NewScript(env),
		vals: map[ssa.Value]string{}, tups: map[ssa.Value][]string{}, addrs: map[ssa.Value]*Addr{},
		cellSort: map[string]string{}, cellType: map[string]types.Type{}, cellOf: map[*ssa.Alloc]string{}, cellName: map[string][]*ssa.Alloc{},
		in: map[int]*State{}, out: map[int]*State{}, reach: map[int]string{}, edges: map[[2]int]string{},
		loops: map[int]*loopInfo{}, oblN: map[string]int{}, assumptions: map[string]bool{}, interior: map[string]bool{}, nilChecked: map[string]*ssa.BasicBlock{}}
	res = &FuncResult{Key: key, Fn: fn}
	g.concrete = env.Concrete
	if env.KeepGen {
		res.G = g
	}
	for _, sf := range env.Specs {
		for name := range sf.GhostVars {
			g.ghostVar(name)
		}
	}
	if c != nil {
		g.props = c.Props
		if c.Arith == "bv" {
			g.sc.Mode = "bv"
		}
	}
	defer func() {
		if r := recover(); r != nil {
			if u, ok := r.(unsupported); ok {
				res.Unsupported = u.msg
				return
			}
			panic(r)
		}
	}()
	g.run()
	res.Prelude = g.sc.Prelude()
	res.Items = g.items
	res.Obls = g.obls
	for a := range g.assumptions {
		res.Assumptions = append(res.Assumptions, a)
	}
	sort.Strings(res.Assumptions)
	res.Warnings = g.warnings
	for _, l := range g.sortedLoops() {
		res.LoopLines = append(res.LoopLines, fmt.Sprintf("loop %d: block %d (%s) at %s", l.ordinal, l.header.Index, l.header.Comment, g.blockPos(l.header)))
	}
	return res
}

func (g *FuncGen) blockPos(b *ssa.BasicBlock) string {
	for _, in := range b.Instrs {
		if in.Pos().IsValid() {
			p := g.env.Fset.Position(in.Pos())
			return fmt.Sprintf("%s:%d", shortFile(p.Filename), p.Line)
		}
	}
	return "?"
}

func shortFile(f string) string {
	if i := strings.LastIndex(f, "/"); i >= 0 {
		return f[i+1:]
	}
	return f
}

func (g *FuncGen) sortedLoops() []*loopInfo {
	var ls []*loopInfo
	for _, l := range g.loops {
		ls = append(ls, l)
	}
	sort.Slice(ls, func(i, j int) bool { return ls[i].header.Index < ls[j].header.Index })
	return ls
}

func (g *FuncGen) run() {
	fn := g.fn
	if len(fn.Blocks) == 0 {
		unsup("function %s has no body", g.key)
	}
	g.analyzeCFG()
	g.setupCells()
	// entry state
	g.st = &State{m: map[string]string{}}
	g.guard = "true"
	g.emit("(assert (>= " + g.alloc() + " 1000000))")
	// parameters
	for _, p := range fn.Params {
		name := q("p:" + p.Name())
		g.sc.declConst(name, g.sc.sortOf(p.Type()))
		g.vals[p] = name
		g.assumeValid(p.Type(), name)
	}
	for _, fv := range fn.FreeVars {
		name := q("fv:" + fv.Name())
		g.sc.declConst(name, g.sc.sortOf(fv.Type()))
		g.vals[fv] = name
		g.assumeValid(fv.Type(), name)
		// a captured variable is the address of a live variable of the enclosing function: never nil
		g.assume(fmt.Sprintf("(not (= %s 0))", name))
	}
	// implicit: pointer receiver is non-nil
	if fn.Signature.Recv() != nil && len(fn.Params) > 0 {
		if _, ok := fn.Params[0].Type().Underlying().(*types.Pointer); ok {
			g.assume(fmt.Sprintf("(not (= %s 0))", g.vals[fn.Params[0]]))
		}
	}
	if g.c != nil && g.c.Opts["count_sends"] != "" {
		// the ghost send counter starts at zero
		key := "cell:ghost:sends"
		g.cellSort[key] = "Int"
		g.cellType[key] = types.Typ[types.Int]
		g.update(key, "0")
	}
	g.entry = g.st.clone()
	// requires
	if g.c != nil {
		cx := g.newSpecCtx(g.st, g.entry)
		for _, r := range g.c.Requires {
			g.assume(cx.assumeTerm(r.E))
		}
		for _, r := range g.c.Assumes {
			g.assume(cx.assumeTerm(r.E))
			g.assumptions["assume clause in "+g.key+": "+r.Src] = true
		}
		for _, ln := range g.c.Uses {
			lm := g.env.findLemma(ln)
			if lm == nil {
				cx.fail("unknown lemma %s", ln)
			}
			lcx := g.newSpecCtx(g.st, g.entry)
			lcx.vars = map[string]sval{}
			g.emit("(assert " + lcx.assumeTerm(lm.Body) + ")")
			if lm.Assumed {
				g.assumptions["lemma "+ln+" is assumed, not proved"] = true
			}
		}
		for _, a := range g.c.Applies {
			if !g.env.isLemmaInstance(a.E) {
				cx.fail("apply clause is not a lemma instance: %s", a.Src)
			}
			g.emit("(assert " + cx.assumeTerm(a.E) + ")")
		}
		g.execGhost("entry", cx)
		// reachability cover of the precondition
		ob := g.oblig("cover", "requires-satisfiable", "false", fn.Pos(), nil, "precondition must be satisfiable")
		ob.Cover = true
	}
	g.entry = g.st.clone()

	// ghost assignments executed inside loops modify their target components there
	if g.c != nil {
		for _, gs := range g.c.Ghost {
			var n int
			if _, err := fmt.Sscanf(gs.At, "loop %d", &n); err != nil {
				continue
			}
			tgt := gs.Target
			if ix, ok := tgt.(*EIndex); ok {
				tgt = ix.X
			}
			lcx := g.newSpecCtx(g.st, g.entry)
			lcx.locals = true
			for _, l := range g.loops {
				if l.ordinal == n {
					lcx.at = l.header
				}
			}
			for _, loc := range lcx.locations(tgt) {
				for _, l := range g.loops {
					if l.ordinal == n {
						l.modified[loc.comp] = true
						for _, outer := range g.loops {
							if outer != l && outer.body[l.header.Index] {
								outer.modified[loc.comp] = true
							}
						}
					}
				}
			}
		}
	}

	if g.concrete {
		// replay: the post state is whatever the real code produced; every component is a fresh constant
		g.st = &State{m: map[string]string{}}
		g.postPhase = true
		var res []string
		rs := fn.Signature.Results()
		for i := 0; i < rs.Len(); i++ {
			res = append(res, g.declare("res", g.sc.sortOf(rs.At(i).Type())))
		}
		g.concreteRes = res
		g.checkExit(res, fn.Pos())
		return
	}
	for _, b := range g.order {
		g.execBlock(b)
	}
}

// analyzeCFG computes a topological order ignoring back edges, and natural loops.
func (g *FuncGen) analyzeCFG() {
	fn := g.fn
	isBack := func(u, v *ssa.BasicBlock) bool { return v.Dominates(u) }
	// reachable blocks via DFS from entry
	visited := map[int]bool{}
	var post []*ssa.BasicBlock
	var dfs func(b *ssa.BasicBlock)
	dfs = func(b *ssa.BasicBlock) {
		visited[b.Index] = true
		for _, s := range b.Succs {
			if isBack(b, s) {
				continue
			}
			if !visited[s.Index] {
				dfs(s)
			}
		}
		post = append(post, b)
	}
	dfs(fn.Blocks[0])
	for i := len(post) - 1; i >= 0; i-- {
		g.order = append(g.order, post[i])
	}
	// loops
	for _, b := range g.order {
		for _, s := range b.Succs {
			if isBack(b, s) {
				l := g.loops[s.Index]
				if l == nil {
					l = &loopInfo{header: s, body: map[int]bool{s.Index: true}, modified: map[string]bool{}}
					g.loops[s.Index] = l
				}
				l.backSrc = append(l.backSrc, b)
				// body: nodes reaching b without passing through header
				var stack []*ssa.BasicBlock
				if !l.body[b.Index] {
					l.body[b.Index] = true
					stack = append(stack, b)
				}
				for len(stack) > 0 {
					x := stack[len(stack)-1]
					stack = stack[:len(stack)-1]
					for _, p := range x.Preds {
						if !l.body[p.Index] && visited[p.Index] {
							l.body[p.Index] = true
							stack = append(stack, p)
						}
					}
				}
			}
		}
	}
	for i, l := range g.sortedLoops() {
		l.ordinal = i + 1
		if g.c != nil {
			l.spec = g.c.Loops[l.ordinal]
		}
	}
	if g.c != nil {
		for n := range g.c.Loops {
			if n < 1 || n > len(g.loops) {
				panic(specErr{fmt.Sprintf("the contract has loop %d but the function has %d loops", n, len(g.loops))})
			}
		}
	}
}

// setupCells registers local (non-heap) Allocs as cells.
func (g *FuncGen) setupCells() {
	n := 0
	for _, b := range g.fn.Blocks {
		for _, in := range b.Instrs {
			if a, ok := in.(*ssa.Alloc); ok && a.Heap && a.Comment != "" && a.Comment != "complit" && a.Comment != "new" && a.Comment != "makeslice" && a.Comment != "slicelit" && a.Comment != "varargs" {
				// a named local that escapes (e.g. captured by a closure): lives on the heap
				if g.heapLocals == nil {
					g.heapLocals = map[string][]*ssa.Alloc{}
				}
				g.heapLocals[a.Comment] = append(g.heapLocals[a.Comment], a)
			}
			if a, ok := in.(*ssa.Alloc); ok && !a.Heap {
				n++
				et := deref(a.Type())
				key := fmt.Sprintf("cell:%s%s#%d", g.cellPrefix, a.Comment, n)
				g.cellOf[a] = key
				g.cellSort[key] = g.sc.sortOf(et)
				g.cellType[key] = et
				g.cellName[a.Comment] = append(g.cellName[a.Comment], a)
			}
		}
	}
	g.applyRecordedNames()
	// loop modified sets
	for _, l := range g.loops {
		g.loopEffects(l)
	}
}

func (g *FuncGen) enclosing(b *ssa.BasicBlock) []*loopInfo {
	var out []*loopInfo
	for _, l := range g.loops {
		if l.body[b.Index] {
			out = append(out, l)
		}
	}
	return out
}

func (g *FuncGen) isBackEdge(u, v *ssa.BasicBlock) bool { return v.Dominates(u) }

func (g *FuncGen) mergeStates(preds []*ssa.BasicBlock, b *ssa.BasicBlock) (*State, string) {
	var ps []*ssa.BasicBlock
	for _, p := range preds {
		if _, ok := g.out[p.Index]; ok {
			if _, ok := g.edges[[2]int{p.Index, b.Index}]; ok {
				ps = append(ps, p)
			}
		}
	}
	if len(ps) == 0 {
		return nil, "false"
	}
	var conds []string
	for _, p := range ps {
		conds = append(conds, g.edges[[2]int{p.Index, b.Index}])
	}
	reach := or(conds...)
	if len(ps) == 1 {
		return g.out[ps[0].Index].clone(), reach
	}
	keys := map[string]bool{}
	for _, p := range ps {
		for k := range g.out[p.Index].m {
			keys[k] = true
		}
	}
	st := &State{m: map[string]string{}}
	for _, k := range sortedKeys(keys) {
		first := g.get(g.out[ps[0].Index], k)
		same := true
		for _, p := range ps[1:] {
			if g.get(g.out[p.Index], k) != first {
				same = false
			}
		}
		if same {
			st.m[k] = first
			continue
		}
		// ite chain
		expr := g.get(g.out[ps[len(ps)-1].Index], k)
		for i := len(ps) - 2; i >= 0; i-- {
			expr = fmt.Sprintf("(ite %s %s %s)", g.edges[[2]int{ps[i].Index, b.Index}], g.get(g.out[ps[i].Index], k), expr)
		}
		st.m[k] = g.defState(k, expr)
	}
	return st, reach
}

func (g *FuncGen) execBlock(b *ssa.BasicBlock) {
	g.cur = b
	g.curLoop = nil
	if b.Index == 0 {
		g.reach[0] = "true"
		g.guard = "true"
		if g.baseGuard != "" {
			g.reach[0] = g.baseGuard
			g.guard = g.baseGuard
		}
	} else {
		var fwd []*ssa.BasicBlock
		for _, p := range b.Preds {
			if !g.isBackEdge(p, b) {
				fwd = append(fwd, p)
			}
		}
		st, reach := g.mergeStates(fwd, b)
		if st == nil {
			return // unreachable
		}
		g.st = st
		r := g.def(fmt.Sprintf("reach_%d", b.Index), "Bool", reach)
		g.reach[b.Index] = r
		g.guard = r
	}
	if l, ok := g.loops[b.Index]; ok {
		g.enterLoop(l)
	}
	g.curLoop = g.enclosing(b)
	g.in[b.Index] = g.st.clone()
	for _, in := range b.Instrs {
		g.execInstr(in)
	}
	g.out[b.Index] = g.st
}

func (g *FuncGen) enterLoop(l *loopInfo) {
	// 1. invariants hold on entry
	l.pre = g.st.clone()
	if l.spec == nil {
		g.warnings = append(g.warnings, fmt.Sprintf("loop %d of %s has no invariant: abstracted by havoc", l.ordinal, g.key))
		g.assumptions[fmt.Sprintf("loop %d of %s has no invariant (abstracted: modified state havocked)", l.ordinal, g.key)] = true
	} else {
		cx := g.newSpecCtx(g.st, g.entry)
		cx.pre = l.pre
		cx.locals = true
		cx.at = l.header
		for _, inv := range l.spec.Invariants {
			cj := cx.conjuncts(inv.E)
			for ci, t := range cj {
				lab := loopLabel(l, inv)
				if len(cj) > 1 {
					lab = fmt.Sprintf("%s.%d", lab, ci+1)
				}
				g.oblig("invariant-entry", lab, t, l.header.Instrs[0].Pos(), inv.Props, inv.Src)
			}
		}
	}
	if l.spec != nil || g.c != nil {
		cx := g.newSpecCtx(g.st, g.entry)
		cx.pre = l.pre
		cx.locals = true
		cx.at = l.header
		for _, f := range g.loopFrameInvariants(l, cx) {
			if strings.HasPrefix(f.src, "function frame ") {
				g.oblig("loop-frame-entry", fmt.Sprintf("loop%d:%s", l.ordinal, strings.TrimPrefix(f.src, "function frame ")), f.expr, l.header.Instrs[0].Pos(), nil, f.src)
			}
		}
	}
	// 2. havoc modified state
	preAlloc := g.alloc()
	g.curLoop = nil // allow writes: we are at the header, havocking
	for _, k := range sortedKeys(l.modified) {
		g.st.m[k] = g.declare(k, g.keySort(k))
		if t, ok := g.cellType[k]; ok {
			g.assumeValid(t, g.st.m[k])
		}
	}
	if l.modified["alloc"] {
		g.assume(fmt.Sprintf("(>= %s %s)", g.alloc(), preAlloc))
	}
	l.preAlloc = preAlloc
	// allocation counter at the start of the (arbitrary) iteration about to be executed: everything allocated
	// from here on was allocated in this iteration (see the spec builtin freshin)
	l.iterAlloc = g.defConst("iteralloc", "Int", g.alloc())
	// 3. assume invariants
	if l.spec != nil {
		cx := g.newSpecCtx(g.st, g.entry)
		cx.pre = l.pre
		cx.locals = true
		cx.at = l.header
		for _, inv := range l.spec.Invariants {
			g.assume(cx.assumeTerm(inv.E))
		}
		for _, f := range g.loopFrameInvariants(l, cx) {
			g.assume(f.expr)
		}
		for _, a := range l.spec.Applies {
			if !g.env.isLemmaInstance(a.E) {
				cx.fail("apply clause is not a lemma instance: %s", a.Src)
			}
			g.assume(cx.assumeTerm(a.E))
		}
		if l.spec.Decreases != nil {
			t := cx.intTerm(l.spec.Decreases.E)
			l.decrName = g.def("decr", "Int", t)
		}
	} else if g.c != nil {
		cx := g.newSpecCtx(g.st, g.entry)
		cx.pre = l.pre
		for _, f := range g.loopFrameInvariants(l, cx) {
			g.assume(f.expr)
		}
	}
}

func loopLabel(l *loopInfo, c *Clause) string {
	if c.Name != "" {
		return fmt.Sprintf("loop%d:%s", l.ordinal, c.Name)
	}
	return fmt.Sprintf("loop%d", l.ordinal)
}

type frameInv struct {
	expr string
	src  string
}

// loopFrameInvariants turns a loop's modifies clauses into invariants C == store(C@pre, r, C[r]).
func (g *FuncGen) loopFrameInvariants(l *loopInfo, cx *SpecCtx) []frameInv {
	var out0 []frameInv
	if g.c != nil {
		// the function's own frame condition holds at every loop iteration
		if g.entryLocs == nil {
			cxE := g.newSpecCtx(g.entry, g.entry)
			g.entryLocs = []location{}
			for _, m := range g.c.Modifies {
				g.entryLocs = append(g.entryLocs, cxE.locations(m.E)...)
			}
		}
		ea := g.get(g.entry, "alloc")
		for _, k := range sortedKeys(l.modified) {
			if _, isCell := g.cellSort[k]; isCell || k == "alloc" {
				continue
			}
			cur := g.get(cx.st, k)
			ent := g.get(g.entry, k)
			var excl []string
			for _, lc := range g.entryLocs {
				if lc.comp == k {
					excl = append(excl, fmt.Sprintf("(not %s)", lc.member("fr!r")))
				}
			}
			body := fmt.Sprintf("(=> %s (= (select %s fr!r) (select %s fr!r)))", and(append([]string{existedAt("fr!r", ea)}, excl...)...), cur, ent)
			out0 = append(out0, frameInv{fmt.Sprintf("(forall ((fr!r Int)) (! %s :pattern ((select %s fr!r))))", body, cur), "function frame " + k})
		}
	}
	if l.spec == nil || len(l.spec.Modifies) == 0 {
		return out0
	}
	precx := g.newSpecCtx(l.pre, g.entry)
	precx.pre = l.pre
	precx.locals = true
	precx.at = l.header
	var locs []location
	for _, m := range l.spec.Modifies {
		locs = append(locs, precx.locations(m.E)...)
	}
	var out []frameInv
	pa := g.get(l.pre, "alloc")
	for _, k := range sortedKeys(l.modified) {
		if _, isCell := g.cellSort[k]; isCell || k == "alloc" {
			continue
		}
		cur := g.get(cx.st, k)
		pre := g.get(l.pre, k)
		rv := "fr!r"
		var excl []string
		for _, lc := range locs {
			if lc.comp == k {
				excl = append(excl, fmt.Sprintf("(not %s)", lc.member(rv)))
			}
		}
		body := fmt.Sprintf("(=> %s (= (select %s %s) (select %s %s)))", and(append([]string{existedAt(rv, pa)}, excl...)...), cur, rv, pre, rv)
		out = append(out, frameInv{fmt.Sprintf("(forall ((%s Int)) (! %s :pattern ((select %s %s))))", rv, body, cur, rv), "loop frame " + k})
	}
	return append(out0, out...)
}

func (g *FuncGen) backEdge(from *ssa.BasicBlock, l *loopInfo, edgeCond string) {
	saveGuard := g.guard
	g.guard = edgeCond
	if l.spec != nil {
		// vacuity guard: the end of the loop body must be reachable under the invariants
		ob := g.oblig("cover", fmt.Sprintf("loop%d-body-reachable-from-%d", l.ordinal, from.Index), "false", l.header.Instrs[0].Pos(), nil, "the loop body must be reachable (invariants not contradictory)")
		if ob != nil {
			ob.Cover = true
		}
	}
	if l.spec == nil && g.c != nil {
		cx := g.newSpecCtx(g.st, g.entry)
		cx.pre = l.pre
		for _, f := range g.loopFrameInvariants(l, cx) {
			g.oblig("loop-frame", fmt.Sprintf("loop%d:%s", l.ordinal, strings.TrimPrefix(f.src, "function frame ")), f.expr, l.header.Instrs[0].Pos(), nil, f.src)
		}
	}
	if l.spec != nil && g.c != nil {
		gcx := g.newSpecCtx(g.st, g.entry)
		gcx.pre = l.pre
		gcx.locals = true
		gcx.at = l.header
		g.execGhost(fmt.Sprintf("loop %d", l.ordinal), gcx)
	}
	if l.spec != nil {
		cx := g.newSpecCtx(g.st, g.entry)
		cx.pre = l.pre
		cx.locals = true
		cx.at = l.header
		for _, h := range l.spec.Hints {
			if g.env.isLemmaInstance(h.E) {
				// an instance of a proved lemma / defining equation at the end of the loop body
				g.assume(cx.assumeTerm(h.E))
				continue
			}
			g.oblig("hint", fmt.Sprintf("loop%d:%s", l.ordinal, h.Name), cx.boolTerm(h.E), from.Instrs[len(from.Instrs)-1].Pos(), h.Props, h.Src)
			g.assume(cx.assumeTerm(h.E))
		}
		for _, inv := range l.spec.Invariants {
			cj := cx.conjuncts(inv.E)
			for ci, t := range cj {
				lab := loopLabel(l, inv)
				if len(cj) > 1 {
					lab = fmt.Sprintf("%s.%d", lab, ci+1)
				}
				g.oblig("invariant-preserve", lab, t, from.Instrs[len(from.Instrs)-1].Pos(), inv.Props, inv.Src)
			}
		}
		for _, f := range g.loopFrameInvariants(l, cx) {
			g.oblig("loop-frame", fmt.Sprintf("loop%d:%s", l.ordinal, strings.TrimPrefix(strings.TrimPrefix(f.src, "loop frame "), "function frame ")), f.expr, l.header.Instrs[0].Pos(), nil, f.src)
		}
		if l.spec.Decreases != nil {
			t := cx.intTerm(l.spec.Decreases.E)
			g.oblig("decreases", fmt.Sprintf("loop%d", l.ordinal), fmt.Sprintf("(and (>= %s 0) (< %s %s))", l.decrName, t, l.decrName), l.header.Instrs[0].Pos(), nil, l.spec.Decreases.Src)
		}
	}
	g.guard = saveGuard
}

func (g *FuncGen) setEdge(from, to *ssa.BasicBlock, cond string) {
	if g.isBackEdge(from, to) {
		if l, ok := g.loops[to.Index]; ok {
			g.backEdge(from, l, cond)
		}
		return
	}
	name := g.def(fmt.Sprintf("edge_%d_%d", from.Index, to.Index), "Bool", cond)
	// two edges between the same blocks (if with identical targets): or them
	if old, ok := g.edges[[2]int{from.Index, to.Index}]; ok {
		name = g.def(fmt.Sprintf("edge_%d_%d", from.Index, to.Index), "Bool", or(old, cond))
	}
	g.edges[[2]int{from.Index, to.Index}] = name
}

// NamedLocals lists the named variables of a function (parameters first, then local variables in source order) as
// "name|type" strings.  The list recorded on the unchanged tree (contracts/bindings.json) lets a contract keep
// attaching after a pure rename of a parameter or local: an identifier the contract mentions that no longer exists is
// matched by position and type.
func NamedLocals(fn *ssa.Function) (params []string, locals []string, allocs []*ssa.Alloc) {
	for _, p := range fn.Params {
		params = append(params, p.Name()+"|"+p.Type().String())
	}
	for _, b := range fn.Blocks {
		for _, in := range b.Instrs {
			if a, ok := in.(*ssa.Alloc); ok && a.Comment != "" && a.Pos().IsValid() {
				allocs = append(allocs, a)
			}
		}
	}
	sort.SliceStable(allocs, func(i, j int) bool { return allocs[i].Pos() < allocs[j].Pos() })
	for _, a := range allocs {
		locals = append(locals, a.Comment+"|"+deref(a.Type()).String())
	}
	return
}

func (g *FuncGen) applyRecordedNames() {
	bk := g.key
	if i := strings.Index(bk, " #"); i >= 0 {
		bk = bk[:i]
	}
	rec := g.env.Bindings[fnPkgPath(g.fn)+"|"+bk]
	if rec == nil {
		return
	}
	params, locals, allocs := NamedLocals(g.fn)
	split := func(s string) (string, string) {
		i := strings.Index(s, "|")
		return s[:i], s[i+1:]
	}
	current := map[string]bool{}
	for _, s := range append(append([]string{}, params...), locals...) {
		n, _ := split(s)
		current[n] = true
	}
	g.paramAlias = map[string]*ssa.Parameter{}
	if len(rec.Params) == len(params) {
		for i := range params {
			on, ot := split(rec.Params[i])
			cn, ct := split(params[i])
			if on != cn && ot == ct && !current[on] {
				g.paramAlias[on] = g.fn.Params[i]
				g.warnings = append(g.warnings, fmt.Sprintf("%s: parameter %s was renamed to %s (matched by position)", g.key, on, cn))
			}
		}
	}
	if len(rec.Locals) == len(locals) {
		for i := range locals {
			on, ot := split(rec.Locals[i])
			cn, ct := split(locals[i])
			if on != cn && ot == ct && !current[on] {
				a := allocs[i]
				if a.Heap {
					if g.heapLocals == nil {
						g.heapLocals = map[string][]*ssa.Alloc{}
					}
					g.heapLocals[on] = append(g.heapLocals[on], a)
				} else {
					g.cellName[on] = append(g.cellName[on], a)
				}
				g.warnings = append(g.warnings, fmt.Sprintf("%s: variable %s was renamed to %s (matched by position)", g.key, on, cn))
			}
		}
	}
}

// inlinable reports whether an uncontracted module function can be executed in place at a call site: straight-line
// or branching code without loops, defers, goroutines or selects, and small.
func inlinable(fn *ssa.Function) bool {
	if fn == nil || len(fn.Blocks) == 0 || fn.Recover != nil {
		if os.Getenv("DVC_DEBUG") != "" {
			fmt.Fprintf(os.Stderr, "inlinable: nil/blocks/recover %v\n", fn != nil && fn.Recover != nil)
		}
		return false
	}
	n := 0
	for _, b := range fn.Blocks {
		for _, s := range b.Succs {
			if s.Dominates(b) {
				if os.Getenv("DVC_DEBUG") != "" {
					fmt.Fprintf(os.Stderr, "inlinable: back edge %d -> %d\n", b.Index, s.Index)
				}
				return false // a loop
			}
		}
		for _, in := range b.Instrs {
			n++
			switch in.(type) {
			case *ssa.Defer, *ssa.Go, *ssa.Select, *ssa.MakeClosure:
				if os.Getenv("DVC_DEBUG") != "" {
					fmt.Fprintf(os.Stderr, "inlinable: instr %T\n", in)
				}
				return false
			}
		}
	}
	return n <= 120
}

// inlineCall executes an uncontracted module callee in place (instead of havocking everything it might touch): the
// callee's own safety obligations are generated in the caller's context, its effects are exactly its code's.
func (g *FuncGen) inlineCall(callee *ssa.Function, args []string, sig *types.Signature, v ssa.Value) bool {
	if g.inlineDepth >= 2 || callee == g.fn || !inlinable(callee) || len(args) != len(callee.Params) {
		if os.Getenv("DVC_DEBUG") != "" {
			fmt.Fprintf(os.Stderr, "not inlining %s: depth=%d inlinable=%v args=%d params=%d\n", callee.Name(), g.inlineDepth, inlinable(callee), len(args), len(callee.Params))
		}
		return false
	}
	g.inlineCount++
	var rets []inlineRet
	ch := &FuncGen{env: g.env, fn: callee, key: g.key, c: nil, spec: g.spec, sc: g.sc,
		vals: map[ssa.Value]string{}, tups: map[ssa.Value][]string{}, addrs: map[ssa.Value]*Addr{},
		cellSort: g.cellSort, cellType: g.cellType, cellOf: map[*ssa.Alloc]string{}, cellName: map[string][]*ssa.Alloc{},
		in: map[int]*State{}, out: map[int]*State{}, reach: map[int]string{}, edges: map[[2]int]string{},
		loops: map[int]*loopInfo{}, oblN: g.oblN, assumptions: g.assumptions, interior: g.interior, nilChecked: map[string]*ssa.BasicBlock{},
		cellPrefix: fmt.Sprintf("%sinl%d:", g.cellPrefix, g.inlineCount), inlineDepth: g.inlineDepth + 1, inlineRets: &rets, baseGuard: g.guard,
		props: g.props, entry: g.entry, items: g.items, obls: g.obls, warnings: g.warnings, guard: g.guard, st: g.st}
	if g.c != nil && (g.c.NoSafety || g.c.Opts["restriction_only"] != "") {
		ch.c = &Contract{Key: g.key, NoSafety: g.c.NoSafety, Opts: map[string]string{"restriction_only": g.c.Opts["restriction_only"], "noframe": "true"}, Loops: map[int]*LoopSpec{}}
	}
	for i, p := range callee.Params {
		ch.vals[p] = args[i]
	}
	// transactional: a callee that leaves the supported subset is not inlined (the caller falls back to havoc)
	n0i, n0o, st0 := len(g.items), len(g.obls), g.st.clone()
	okRun := func() (ok bool) {
		defer func() {
			if r := recover(); r != nil {
				if _, isU := r.(unsupported); isU {
					ok = false
					return
				}
				panic(r)
			}
		}()
		ch.analyzeCFG()
		ch.setupCells()
		for _, b := range ch.order {
			ch.execBlock(b)
		}
		return true
	}()
	if !okRun {
		g.items, g.obls, g.st = g.items[:n0i], g.obls[:n0o], st0
		return false
	}
	g.items, g.obls, g.warnings = ch.items, ch.obls, ch.warnings
	if len(rets) == 0 {
		// the callee never returns normally on this path
		g.assume("false")
		return true
	}
	// merge the returns
	st := rets[len(rets)-1].st
	vals := append([]string{}, rets[len(rets)-1].vals...)
	for i := len(rets) - 2; i >= 0; i-- {
		r := rets[i]
		merged := &State{m: map[string]string{}}
		keys := map[string]bool{}
		for k := range st.m {
			keys[k] = true
		}
		for k := range r.st.m {
			keys[k] = true
		}
		for _, k := range sortedKeys(keys) {
			a, b := g.get(r.st, k), g.get(st, k)
			if a == b {
				merged.m[k] = a
			} else {
				merged.m[k] = g.defState(k, fmt.Sprintf("(ite %s %s %s)", r.guard, a, b))
			}
		}
		st = merged
		for j := range vals {
			if r.vals[j] != vals[j] {
				vals[j] = fmt.Sprintf("(ite %s %s %s)", r.guard, r.vals[j], vals[j])
			}
		}
	}
	g.st = st
	res := make([]string, len(vals))
	for j, t := range vals {
		res[j] = g.def("inlres", g.sc.sortOf(sig.Results().At(j).Type()), t)
	}
	g.bindResults(sig, v, res)
	g.assumptions["uncontracted module callee "+calleeKey(callee)+" (called from "+g.key+") is executed in place (inlined)"] = true
	return true
}
