package vc

// Replay support: turning a solver model into concrete arguments for the real function, and turning what the
// real function did on them (observed by the harness in /verif/replay/harness.go.txt) into ground facts
// ("pins") under which the function's postconditions are evaluated by the solver.
//
// A violation is confirmed only when, with the complete description of the arguments that were built and the
// observed results pinned, (a) the preconditions are satisfiable and (b) a postcondition is unsatisfiable:
// the real code, called on an input the contract admits, produced a state the contract excludes.

import (
	"fmt"
	"go/types"
	"math/big"
	"math/rand"
	"context"
	"sort"
	"strconv"
	"strings"
)

// RV is a concrete value tree (JSON shared with the Go harness).
type RV struct {
	K    string `json:"k"` // i b f p s st a z
	N    string `json:"n,omitempty"`
	B    bool   `json:"b,omitempty"`
	Nil  bool   `json:"nil,omitempty"`
	ID   int    `json:"id,omitempty"`
	New  bool   `json:"new,omitempty"`
	Seen bool   `json:"seen,omitempty"`
	Off  int    `json:"off,omitempty"`
	Len  int    `json:"len,omitempty"`
	Cap  int    `json:"cap,omitempty"`
	E    []*RV  `json:"e,omitempty"`
	P    *RV    `json:"p,omitempty"`
	Why  string `json:"why,omitempty"`
}

type ROut struct {
	Panic   string `json:"panic,omitempty"`
	Timeout bool   `json:"timeout,omitempty"`
	Args    []*RV  `json:"args,omitempty"`
	Results []*RV  `json:"results,omitempty"`
	Error   string `json:"error,omitempty"`
}

// replayWalk explores (mode "explore") or reads (mode "model") the entry state reachable from the parameters.
type replayWalk struct {
	g      *FuncGen
	mode   string
	k0     int
	terms  []string          // query terms, in order of registration
	sorts  []string          // their sorts
	index  map[string]int    // term -> position
	vals   map[string]string // term -> model value (model mode)
	bounds []string          // size bounds asserted with the query
	nextID int
	ids    map[string]int // model reference + type -> object id
	nodes  int
	notes  map[string]bool
	fail   string
	leaves []replayLeaf
	forceZero int // > 0 inside a struct type of the standard library: its internals are left at their zero values
}

// stdStruct reports a named struct type defined in the standard library (sync.Mutex, time.Time, os.File, ...): the
// harness does not fill in their internals.
func stdStruct(t types.Type) bool {
	n, ok := t.(*types.Named)
	if !ok || n.Obj().Pkg() == nil {
		return false
	}
	if _, isS := n.Underlying().(*types.Struct); !isS {
		return false
	}
	first := strings.SplitN(n.Obj().Pkg().Path(), "/", 2)[0]
	return !strings.Contains(first, ".")
}

type replayLeaf struct {
	term  string
	basic *types.Basic
	isLen bool
}

func (w *replayWalk) ask(term, sort string) string {
	if w.mode == "explore" {
		if _, ok := w.index[term]; !ok {
			w.index[term] = len(w.terms)
			w.terms = append(w.terms, term)
			w.sorts = append(w.sorts, sort)
		}
		return ""
	}
	v, ok := w.vals[term]
	if !ok {
		return ""
	}
	return v
}

func (w *replayWalk) kOf(depth int) int {
	switch {
	case depth <= 1:
		return w.k0
	case depth == 2:
		return 4
	}
	return 2
}

const replayMapKeys = 8 // maps are built with keys among 0..7

// simpleMap: integer keys, scalar values (the maps the harness can build and describe completely)
func simpleMap(m *types.Map) bool {
	if _, ok := isInt(m.Key()); !ok {
		return false
	}
	if b, ok := m.Elem().Underlying().(*types.Basic); ok {
		return b.Info()&(types.IsInteger|types.IsBoolean|types.IsFloat) != 0
	}
	return false
}

const replayMaxNodes = 6000
const replayMaxDepth = 6

// comp returns the term of a heap component in the entry state.
func (w *replayWalk) comp(key string) string { return w.g.initialVar(key) }

func (w *replayWalk) opaque(t types.Type, why string) *RV {
	w.notes[why] = true
	return &RV{K: "z", Why: why}
}

func (w *replayWalk) value(t types.Type, term string, depth int) *RV {
	w.nodes++
	if w.nodes > replayMaxNodes {
		return w.opaque(t, "node limit reached: left at the zero value")
	}
	g := w.g
	if w.mode == "explore" {
		// memory that the function has not loaded yet is unconstrained in the script: state that it holds
		// well-formed values of its type, as any real memory does
		if _, isStructVal := isStruct(t); !isStructVal {
			if _, isArr := t.Underlying().(*types.Array); !isArr {
				w.bounds = append(w.bounds, g.sc.valid(t, term, g.get(g.entry, "alloc"), 0)...)
			}
		}
		if b, ok := isInt(t); ok {
			w.leaves = append(w.leaves, replayLeaf{term: term, basic: b})
		}
	}
	if stdStruct(t) {
		w.forceZero++
		defer func() { w.forceZero-- }()
		w.notes["structs of the standard library ("+typeName(t)+") are left at their zero value"] = true
	}
	if w.forceZero > 0 {
		switch u := t.Underlying().(type) {
		case *types.Basic:
			switch {
			case u.Info()&types.IsBoolean != 0:
				return &RV{K: "b"}
			case u.Info()&types.IsInteger != 0:
				return &RV{K: "i", N: "0"}
			case u.Info()&types.IsFloat != 0:
				return &RV{K: "f", N: "0"}
			}
			return &RV{K: "z", Why: "zero"}
		case *types.Pointer:
			return &RV{K: "p", Nil: true}
		case *types.Slice:
			return &RV{K: "s", Nil: true}
		case *types.Struct, *types.Array:
			// fall through: the structure is described, every leaf zero
		default:
			return &RV{K: "z", Why: "zero"}
		}
	}
	switch u := t.Underlying().(type) {
	case *types.Basic:
		switch {
		case u.Info()&types.IsBoolean != 0:
			v := w.ask(term, "Bool")
			return &RV{K: "b", B: v == "true"}
		case u.Info()&types.IsInteger != 0:
			v := w.ask(term, "Int")
			if v == "" {
				v = "0"
			}
			return &RV{K: "i", N: v}
		case u.Info()&types.IsFloat != 0:
			v := w.ask(term, "Real")
			f := 0.0
			if v != "" {
				r, ok := new(big.Rat).SetString(v)
				if ok {
					f, _ = r.Float64()
					if u.Kind() == types.Float32 {
						f = float64(float32(f))
					}
				}
			}
			return &RV{K: "f", N: fmtFloat(f)}
		}
		return w.opaque(t, "values of type "+t.String()+" are left at the zero value")
	case *types.Pointer:
		if depth >= replayMaxDepth {
			return w.opaque(t, "depth limit reached: pointer left nil")
		}
		v := w.ask(term, "Int")
		if w.mode == "model" {
			if v == "" || v == "0" {
				return &RV{K: "p", Nil: true}
			}
		}
		d := &RV{K: "p"}
		if w.mode == "model" {
			key := v + "/" + typeName(t)
			if strings.HasPrefix(v, "-") {
				key = fmt.Sprintf("interior%d/%s", w.nodes, typeName(t))
			}
			if id, ok := w.ids[key]; ok {
				d.ID, d.Seen = id, true
				return d
			}
			w.nextID++
			w.ids[key] = w.nextID
			d.ID = w.nextID
		}
		et := u.Elem()
		if _, ok := isStruct(et); ok {
			d.P = w.structAt(et, term, depth+1)
		} else if _, ok := et.Underlying().(*types.Array); ok {
			d.P = w.value(et, fmt.Sprintf("(select %s %s)", w.comp(g.sc.elemComp(et.Underlying().(*types.Array).Elem())), term), depth+1)
		} else {
			d.P = w.value(et, fmt.Sprintf("(select %s %s)", w.comp(g.sc.cellComp(et)), term), depth+1)
		}
		return d
	case *types.Slice:
		if depth >= replayMaxDepth {
			return w.opaque(t, "depth limit reached: slice left nil")
		}
		arr := fmt.Sprintf("(s-arr %s)", term)
		off := fmt.Sprintf("(s-off %s)", term)
		ln := fmt.Sprintf("(s-len %s)", term)
		cp := fmt.Sprintf("(s-cap %s)", term)
		va, vl, vc := w.ask(arr, "Int"), w.ask(ln, "Int"), w.ask(cp, "Int")
		w.ask(off, "Int")
		k := w.kOf(depth)
		n := k
		d := &RV{K: "s"}
		if w.mode == "explore" {
			w.bounds = append(w.bounds, fmt.Sprintf("(<= %s %d)", ln, k), fmt.Sprintf("(<= %s %d)", cp, 4*k+8))
			w.leaves = append(w.leaves, replayLeaf{term: ln, isLen: true})
		} else {
			if va == "" || va == "0" {
				return &RV{K: "s", Nil: true}
			}
			fmt.Sscan(vl, &n)
			c := n
			fmt.Sscan(vc, &c)
			if n > k || c > 4*k+8 || n < 0 || c < n {
				w.fail = fmt.Sprintf("the counterexample needs a slice of length %d (replay bound %d)", n, k)
				return d
			}
			w.nextID++
			d.ID, d.Len, d.Cap = w.nextID, n, c
		}
		et := u.Elem()
		for i := 0; i < n; i++ {
			idx := fmt.Sprintf("(+ %s %d)", off, i)
			if _, ok := isStruct(et); ok {
				r, _ := g.sc.elemRef(et, arr, idx)
				d.E = append(d.E, w.structAt(et, r, depth+1))
			} else {
				d.E = append(d.E, w.value(et, fmt.Sprintf("(select (select %s %s) %s)", w.comp(g.sc.elemComp(et)), arr, idx), depth+1))
			}
		}
		return d
	case *types.Map:
		if !simpleMap(u) {
			return w.opaque(t, "values of type "+typeName(t)+" (map) are left at the zero value")
		}
		v := w.ask(term, "Int")
		if w.mode == "model" && (v == "" || v == "0") {
			return &RV{K: "m", Nil: true}
		}
		d := &RV{K: "m"}
		if w.mode == "model" {
			w.nextID++
			d.ID = w.nextID
		}
		dom, val := g.sc.mapComps(u)
		for k := 0; k < replayMapKeys; k++ {
			in := w.ask(fmt.Sprintf("(select (select %s %s) %d)", w.comp(dom), term, k), "Bool")
			ev := w.value(u.Elem(), fmt.Sprintf("(select (select %s %s) %d)", w.comp(val), term, k), depth+1)
			if w.mode == "model" && in == "true" {
				d.E = append(d.E, &RV{K: "kv", E: []*RV{{K: "i", N: fmt.Sprintf("%d", k)}, ev}})
			}
		}
		return d
	case *types.Struct:
		d := &RV{K: "st"}
		for i := 0; i < u.NumFields(); i++ {
			g.sc.sortOf(t)
			d.E = append(d.E, w.value(u.Field(i).Type(), fmt.Sprintf("(%s %s)", g.sc.fieldSel(t, i), term), depth))
		}
		return d
	case *types.Array:
		d := &RV{K: "a"}
		n := int(u.Len())
		if n > 64 {
			n = 64
			w.notes["arrays are described up to 64 elements"] = true
		}
		for i := 0; i < n; i++ {
			d.E = append(d.E, w.value(u.Elem(), fmt.Sprintf("(select %s %d)", term, i), depth+1))
		}
		return d
	}
	return w.opaque(t, "values of type "+typeName(t)+" ("+kindName(t)+") are left at the zero value")
}

func kindName(t types.Type) string {
	switch t.Underlying().(type) {
	case *types.Map:
		return "map"
	case *types.Chan:
		return "channel"
	case *types.Signature:
		return "function"
	case *types.Interface:
		return "interface"
	}
	return "other"
}

// structAt describes the struct of type t located at reference ref.
func (w *replayWalk) structAt(t types.Type, ref string, depth int) *RV {
	g := w.g
	if stdStruct(t) {
		w.forceZero++
		defer func() { w.forceZero-- }()
		w.notes["structs of the standard library ("+typeName(t)+") are left at their zero value"] = true
	}
	s, _ := isStruct(t)
	d := &RV{K: "st"}
	for i := 0; i < s.NumFields(); i++ {
		ft := s.Field(i).Type()
		if _, ok := isStruct(ft); ok {
			r, _ := g.sc.fldRef(t, i, ref)
			d.E = append(d.E, w.structAt(ft, r, depth))
		} else {
			d.E = append(d.E, w.value(ft, fmt.Sprintf("(select %s %s)", w.comp(g.sc.fieldCompReg(t, i)), ref), depth))
		}
	}
	return d
}

func fmtFloat(f float64) string { return strconv.FormatFloat(f, 'g', -1, 64) }

// ReplayQuery is the text to add to a failing script (before its check-sat) to read the entry state.
type ReplayQuery struct {
	leaves []replayLeaf
	Bounds string
	Defs   string
	Get    string
	terms  []string
	K0     int
}

// Replayable says whether the function's signature can be exercised by the harness at all.
func (g *FuncGen) Replayable() (bool, string) {
	fn := g.fn
	if len(fn.FreeVars) > 0 || fn.Parent() != nil {
		return false, "closure (captured variables cannot be built)"
	}
	if fn.Signature.Variadic() {
		return false, "variadic function"
	}
	if fn.Signature.TypeParams() != nil || fn.Signature.RecvTypeParams() != nil {
		return false, "generic function"
	}
	return true, ""
}

func (g *FuncGen) newWalk(mode string, k0 int) *replayWalk {
	return &replayWalk{g: g, mode: mode, k0: k0, index: map[string]int{}, vals: map[string]string{}, ids: map[string]int{}, notes: map[string]bool{}, nextID: 1000}
}

// ReplayQuery builds the get-value query for the entry state (slice lengths bounded by k0 at the top level).
func (g *FuncGen) ReplayQuery(k0 int) *ReplayQuery {
	w := g.newWalk("explore", k0)
	for _, p := range g.fn.Params {
		w.value(p.Type(), g.vals[p], 0)
	}
	rq := &ReplayQuery{K0: k0, terms: w.terms, leaves: w.leaves}
	var defs, names []string
	for i, t := range w.terms {
		defs = append(defs, fmt.Sprintf("(define-fun rq!%d () %s %s)", i, w.sorts[i], t))
		names = append(names, fmt.Sprintf("rq!%d", i))
	}
	for _, b := range w.bounds {
		rq.Bounds += "(assert " + b + ")\n"
	}
	rq.Defs = strings.Join(defs, "\n") + "\n"
	rq.Get = "(get-value (" + strings.Join(names, " ") + "))\n"
	return rq
}

// ReplayInput converts the solver's answer to the query into argument descriptions.
func (g *FuncGen) ReplayInput(rq *ReplayQuery, answer string) ([]*RV, []string, error) {
	vals, err := parseGetValue(answer)
	if err != nil {
		return nil, nil, err
	}
	w := g.newWalk("model", rq.K0)
	for i, t := range rq.terms {
		if v, ok := vals[fmt.Sprintf("rq!%d", i)]; ok {
			w.vals[t] = v
		}
	}
	var args []*RV
	for _, p := range g.fn.Params {
		args = append(args, w.value(p.Type(), g.vals[p], 0))
	}
	if w.fail != "" {
		return nil, nil, fmt.Errorf("%s", w.fail)
	}
	var notes []string
	for n := range w.notes {
		notes = append(notes, n)
	}
	sort.Strings(notes)
	return args, notes, nil
}

// ---------- parsing (get-value ...) answers ----------

type sx struct {
	atom string
	list []*sx
}

func parseSx(s string, i *int) *sx {
	for *i < len(s) && (s[*i] == ' ' || s[*i] == '\n' || s[*i] == '\t' || s[*i] == '\r') {
		*i++
	}
	if *i >= len(s) {
		return nil
	}
	if s[*i] == '(' {
		*i++
		n := &sx{list: []*sx{}}
		for {
			for *i < len(s) && (s[*i] == ' ' || s[*i] == '\n' || s[*i] == '\t' || s[*i] == '\r') {
				*i++
			}
			if *i >= len(s) {
				return n
			}
			if s[*i] == ')' {
				*i++
				return n
			}
			c := parseSx(s, i)
			if c == nil {
				return n
			}
			n.list = append(n.list, c)
		}
	}
	if s[*i] == '|' {
		j := strings.IndexByte(s[*i+1:], '|')
		if j < 0 {
			j = len(s) - *i - 1
		}
		a := s[*i : *i+j+2]
		*i += j + 2
		return &sx{atom: a}
	}
	j := *i
	for j < len(s) && !strings.ContainsRune(" \n\t\r()", rune(s[j])) {
		j++
	}
	a := s[*i:j]
	*i = j
	return &sx{atom: a}
}

// numOf evaluates a numeric model value to a rational.
func numOf(n *sx) (*big.Rat, bool) {
	if n == nil {
		return nil, false
	}
	if n.list == nil {
		r, ok := new(big.Rat).SetString(strings.TrimSuffix(n.atom, "?"))
		return r, ok
	}
	if len(n.list) == 0 {
		return nil, false
	}
	op := n.list[0].atom
	var xs []*big.Rat
	for _, c := range n.list[1:] {
		r, ok := numOf(c)
		if !ok {
			return nil, false
		}
		xs = append(xs, r)
	}
	switch {
	case op == "-" && len(xs) == 1:
		return new(big.Rat).Neg(xs[0]), true
	case op == "-" && len(xs) == 2:
		return new(big.Rat).Sub(xs[0], xs[1]), true
	case op == "+" && len(xs) == 2:
		return new(big.Rat).Add(xs[0], xs[1]), true
	case op == "/" && len(xs) == 2 && xs[1].Sign() != 0:
		return new(big.Rat).Quo(xs[0], xs[1]), true
	case op == "*" && len(xs) == 2:
		return new(big.Rat).Mul(xs[0], xs[1]), true
	}
	return nil, false
}

func parseGetValue(out string) (map[string]string, error) {
	i := strings.Index(out, "((")
	if i < 0 {
		return nil, fmt.Errorf("no (get-value) answer in the solver output")
	}
	pos := i
	top := parseSx(out, &pos)
	if top == nil {
		return nil, fmt.Errorf("unreadable (get-value) answer")
	}
	res := map[string]string{}
	for _, pr := range top.list {
		if len(pr.list) != 2 {
			continue
		}
		name := pr.list[0].atom
		v := pr.list[1]
		if v.list == nil && (v.atom == "true" || v.atom == "false") {
			res[name] = v.atom
			continue
		}
		if r, ok := numOf(v); ok {
			if r.IsInt() {
				res[name] = r.Num().String()
			} else {
				res[name] = r.String() // a/b, read back by big.Rat.SetString
			}
		}
	}
	return res, nil
}

// ---------- pins ----------

type pinner struct {
	g     *FuncGen
	post  bool
	pins  []string
	newN  int
	newID map[int]string // harness id of a new object -> constant
}

func (p *pinner) comp(key string) string {
	if p.post {
		return p.g.get(p.g.st, key)
	}
	return p.g.initialVar(key)
}

func (p *pinner) add(f string, a ...interface{}) { p.pins = append(p.pins, fmt.Sprintf(f, a...)) }

func ratOfFloat(s string) (string, bool) {
	if s == "NaN" || strings.Contains(s, "Inf") {
		return "", false
	}
	f, err := strconv.ParseFloat(s, 64)
	if err != nil {
		return "", false
	}
	r := new(big.Rat).SetFloat64(f) // the exact value of the float64
	if r == nil {
		return "", false
	}
	return ratTerm(r), true
}

func ratTerm(r *big.Rat) string {
	neg := r.Sign() < 0
	a := new(big.Rat).Abs(r)
	t := fmt.Sprintf("(/ %s.0 %s.0)", a.Num().String(), a.Denom().String())
	if a.IsInt() {
		t = a.Num().String() + ".0"
	}
	if neg {
		return "(- " + t + ")"
	}
	return t
}

func intTerm(s string) string {
	if strings.HasPrefix(s, "-") {
		return "(- " + s[1:] + ")"
	}
	return s
}

func (p *pinner) newConst(id int) string {
	if c, ok := p.newID[id]; ok {
		return c
	}
	p.newN++
	name := fmt.Sprintf("nr!%d", p.newN)
	p.g.sc.declConst(name, "Int")
	p.newID[id] = name
	return name
}

// value pins term (of Go type t) to the described value.
func (p *pinner) value(t types.Type, term string, d *RV) {
	if d == nil {
		return
	}
	g := p.g
	switch d.K {
	case "i":
		if _, ok := isInt(t); ok {
			p.add("(= %s %s)", term, intTerm(d.N))
		}
	case "b":
		if d.B {
			p.add("%s", term)
		} else {
			p.add("(not %s)", term)
		}
	case "f":
		// Floating-point values are pinned in the entry state only (exactly).  Observed floating-point results are
		// not pinned: the contracts treat float arithmetic as real arithmetic, so a rounded result could contradict a
		// postcondition that the code in fact satisfies up to rounding.
		if p.post {
			return
		}
		if r, ok := ratOfFloat(d.N); ok {
			p.add("(= %s %s)", term, r)
		}
	case "z":
		if !p.post {
			p.add("(= %s %s)", term, g.sc.zero(t))
		} else if d.Nil {
			switch t.Underlying().(type) {
			case *types.Map, *types.Chan, *types.Signature:
				p.add("(= %s 0)", term)
			case *types.Interface:
				p.add("(= (i-typ %s) 0)", term)
			}
		} else {
			switch t.Underlying().(type) {
			case *types.Map, *types.Chan, *types.Signature:
				p.add("(not (= %s 0))", term)
			case *types.Interface:
				p.add("(not (= (i-typ %s) 0))", term)
			}
		}
	case "p":
		pt, ok := t.Underlying().(*types.Pointer)
		if !ok {
			return
		}
		if d.Nil {
			p.add("(= %s 0)", term)
			return
		}
		ref := fmt.Sprintf("%d", d.ID)
		if d.New {
			ref = p.newConst(d.ID)
			p.add("(> %s 0)", ref)
		}
		p.add("(= (rootref %s) %s)", ref, ref)
		p.add("(= %s %s)", term, ref)
		if d.Seen || d.P == nil {
			return
		}
		et := pt.Elem()
		if _, ok := isStruct(et); ok {
			p.structAt(et, ref, d.P)
		} else if at, ok := et.Underlying().(*types.Array); ok {
			p.value(et, fmt.Sprintf("(select %s %s)", p.comp(g.sc.elemComp(at.Elem())), ref), d.P)
		} else {
			p.value(et, fmt.Sprintf("(select %s %s)", p.comp(g.sc.cellComp(et)), ref), d.P)
		}
	case "s":
		st, ok := t.Underlying().(*types.Slice)
		if !ok {
			return
		}
		if d.Nil {
			p.add("(= %s (mk-slice 0 0 0 0))", term)
			return
		}
		var arr, off string
		if d.New || d.Cap == 0 {
			arr = fmt.Sprintf("(s-arr %s)", term)
			off = fmt.Sprintf("(s-off %s)", term)
			p.add("(= (s-len %s) %d)", term, d.Len)
			p.add("(= (s-cap %s) %d)", term, d.Cap)
			if d.Cap > 0 {
				p.add("(> %s 0)", arr)
				p.add("(= (rootref %s) %s)", arr, arr)
			}
		} else {
			arr = fmt.Sprintf("%d", d.ID)
			off = fmt.Sprintf("%d", d.Off)
			p.add("(= (rootref %d) %d)", d.ID, d.ID)
			p.add("(= %s (mk-slice %d %d %d %d))", term, d.ID, d.Off, d.Len, d.Cap)
		}
		et := st.Elem()
		for i, e := range d.E {
			idx := fmt.Sprintf("(+ %s %d)", off, i)
			if !d.New && d.Cap > 0 {
				idx = fmt.Sprintf("%d", d.Off+i)
			}
			if _, ok := isStruct(et); ok {
				r, ax := g.sc.elemRef(et, arr, idx)
				p.pins = append(p.pins, ax...)
				p.structAt(et, r, e)
			} else {
				p.value(et, fmt.Sprintf("(select (select %s %s) %s)", p.comp(g.sc.elemComp(et)), arr, idx), e)
			}
		}
	case "m":
		mt, ok := t.Underlying().(*types.Map)
		if !ok || !simpleMap(mt) {
			return
		}
		if d.Nil {
			p.add("(= %s 0)", term)
			return
		}
		ref := fmt.Sprintf("%d", d.ID)
		if d.New {
			ref = p.newConst(d.ID)
			p.add("(> %s 0)", ref)
		}
		p.add("(= %s %s)", term, ref)
		if d.Seen || d.Len > len(d.E) {
			return // not described completely
		}
		dom, val := g.sc.mapComps(mt)
		ks := g.sc.sortOf(mt.Key())
		chain := fmt.Sprintf("((as const (Array %s Bool)) false)", ks)
		for _, kv := range d.E {
			if len(kv.E) == 2 {
				chain = fmt.Sprintf("(store %s %s true)", chain, intTerm(kv.E[0].N))
			}
		}
		domTerm := fmt.Sprintf("(select %s %s)", p.comp(dom), ref)
		p.add("(= %s %s)", domTerm, chain)
		lt, _ := g.sc.mapLen(ks, domTerm)
		p.add("(= %s %d)", lt, len(d.E))
		for _, kv := range d.E {
			if len(kv.E) == 2 {
				p.value(mt.Elem(), fmt.Sprintf("(select (select %s %s) %s)", p.comp(val), ref, intTerm(kv.E[0].N)), kv.E[1])
			}
		}
	case "st":
		s, ok := isStruct(t)
		if !ok {
			return
		}
		g.sc.sortOf(t)
		for i := 0; i < s.NumFields() && i < len(d.E); i++ {
			p.value(s.Field(i).Type(), fmt.Sprintf("(%s %s)", g.sc.fieldSel(t, i), term), d.E[i])
		}
	case "a":
		at, ok := t.Underlying().(*types.Array)
		if !ok {
			return
		}
		for i, e := range d.E {
			p.value(at.Elem(), fmt.Sprintf("(select %s %d)", term, i), e)
		}
	}
}

func (p *pinner) structAt(t types.Type, ref string, d *RV) {
	g := p.g
	s, _ := isStruct(t)
	if d == nil || d.K != "st" {
		return
	}
	for i := 0; i < s.NumFields() && i < len(d.E); i++ {
		ft := s.Field(i).Type()
		if _, ok := isStruct(ft); ok {
			r, ax := g.sc.fldRef(t, i, ref)
			p.pins = append(p.pins, ax...)
			p.structAt(ft, r, d.E[i])
		} else {
			p.value(ft, fmt.Sprintf("(select %s %s)", p.comp(g.sc.fieldCompReg(t, i)), ref), d.E[i])
		}
	}
}

// PinPre returns the ground facts describing the arguments that were built.
func (g *FuncGen) PinPre(args []*RV) []string {
	p := &pinner{g: g, newID: map[int]string{}}
	for i, prm := range g.fn.Params {
		if i < len(args) {
			p.value(prm.Type(), g.vals[prm], args[i])
		}
	}
	return p.pins
}

// PinPost returns the ground facts describing the state observed after the call (arguments and results).
func (g *FuncGen) PinPost(out *ROut) []string {
	p := &pinner{g: g, post: true, newID: map[int]string{}}
	for i, prm := range g.fn.Params {
		if i < len(out.Args) {
			// the parameter values themselves do not change (passed by value): only what they point to
			p.pointees(prm.Type(), g.vals[prm], out.Args[i])
		}
	}
	rs := g.fn.Signature.Results()
	for i := 0; i < rs.Len() && i < len(out.Results) && i < len(g.concreteRes); i++ {
		p.value(rs.At(i).Type(), g.concreteRes[i], out.Results[i])
	}
	return p.pins
}

// pointees pins the memory reachable from an argument in the post state, taking the argument's own
// (unchanged) value as the root.
func (p *pinner) pointees(t types.Type, term string, d *RV) {
	if d == nil {
		return
	}
	switch d.K {
	case "p", "s", "m":
		p.value(t, term, d)
	case "st":
		s, ok := isStruct(t)
		if !ok {
			return
		}
		for i := 0; i < s.NumFields() && i < len(d.E); i++ {
			p.pointees(s.Field(i).Type(), fmt.Sprintf("(%s %s)", p.g.sc.fieldSel(t, i), term), d.E[i])
		}
	}
}

// ReadsGlobals lists the package-level variables the generated conditions mention (they are not pinned).
func (g *FuncGen) ReadsGlobals() []string {
	var out []string
	for k := range g.cellSort {
		if strings.HasPrefix(k, "G:") && !strings.HasPrefix(k, "G:ghost.") {
			out = append(out, k)
		}
	}
	sort.Strings(out)
	return out
}

// ConcreteQuery builds the script deciding obligation ob of a concrete-mode result under the given pins;
// positive=true asserts the clause itself (unsatisfiable = the observed state violates it), positive=false
// asserts only the assumptions (satisfiable = the built input meets the preconditions).
func ConcreteQuery(fr *FuncResult, ob *Obligation, pins []string, positive bool) string {
	var b strings.Builder
	{
		// The quantified axioms of the heap encoding (rootref, interior references) are
		// replaced by their instances on the pinned objects (part of the pins); they only constrain auxiliary
		// symbols that are free on every other term, and the solver cannot build models through them
		// (satisfiability direction); in the unsatisfiability direction dropping assumptions is sound anyway
		for _, ln := range strings.Split(fr.Prelude, "\n") {
			if strings.HasPrefix(ln, "(assert (forall ((x! Int))") || strings.HasPrefix(ln, "(assert (forall ((a! Int) (i! Int))") {
				continue
			}
			b.WriteString(ln)
			b.WriteString("\n")
		}
	}
	for _, it := range fr.Items[:ob.NItems] {
		b.WriteString(it.Text)
		b.WriteString("\n")
	}
	for _, p := range pins {
		fmt.Fprintf(&b, "(assert %s)\n", p)
	}
	if positive {
		fmt.Fprintf(&b, "(assert (and %s %s))\n", ob.Guard, ob.Expr)
	}
	b.WriteString("(check-sat)\n")
	return b.String()
}

// RefreshPrelude recomputes the declarations after pins were generated.
func (fr *FuncResult) RefreshPrelude() {
	if fr.G != nil {
		fr.Prelude = fr.G.sc.Prelude()
	}
}

// RunQuery runs one script on one solver (exported for the replay driver).
func RunQuery(solver, script string, timeout int) (verdict, out string) {
	v, o, _ := runSolver(context.Background(), solver, script, timeout, 0, false)
	return v, o
}

// Diversify returns random side constraints on the integer leaves of the entry state (used to obtain different
// inputs that satisfy the precondition); frac is the fraction of leaves constrained.
func (rq *ReplayQuery) Diversify(rnd *rand.Rand, frac float64) []string {
	var b []string
	for _, l := range rq.leaves {
		if rnd.Float64() > frac {
			continue
		}
		if l.isLen {
			b = append(b, fmt.Sprintf("(= %s %d)", l.term, rnd.Intn(rq.K0+1)))
			continue
		}
		lo, hi, _, _ := intRange(l.basic)
		pick := func(c int64) string {
			v := big.NewInt(c)
			if v.Cmp(hi) > 0 {
				v = hi
			}
			if v.Cmp(lo) < 0 {
				v = lo
			}
			return smtInt(v)
		}
		switch rnd.Intn(10) {
		case 0, 1, 2, 3:
			m := []int{2, 3, 5, 7}[rnd.Intn(4)]
			b = append(b, fmt.Sprintf("(= (mod %s %d) %d)", l.term, m, rnd.Intn(m)))
		case 4, 5:
			c := []int64{1, 2, 10, 100, 1000, 30000, 65535}[rnd.Intn(7)]
			b = append(b, fmt.Sprintf("(>= %s %s)", l.term, pick(c)))
		case 6:
			b = append(b, fmt.Sprintf("(= %s %s)", l.term, pick(int64(rnd.Intn(70000)))))
		case 7:
			b = append(b, fmt.Sprintf("(= %s %s)", l.term, pick(int64(rnd.Intn(12)))))
		case 8:
			if lo.Sign() < 0 {
				b = append(b, fmt.Sprintf("(< %s 0)", l.term))
			}
		}
	}
	return b
}

// SearchForm weakens a script into one the solver can find models of: quantified assertions are dropped and the
// division/remainder symbols (uninterpreted in function conditions) get their real definitions.  Models of the
// weakened script are only candidates: every one is run on the real code and judged by the full contract.
func SearchForm(script string) string {
	var b strings.Builder
	i := 0
	for i < len(script) {
		for i < len(script) && (script[i] == '\n' || script[i] == ' ' || script[i] == '\t') {
			i++
		}
		if i >= len(script) {
			break
		}
		j := i
		if script[i] == '(' {
			depth := 0
			inBar := false
			for j < len(script) {
				c := script[j]
				if c == '|' {
					inBar = !inBar
				} else if !inBar {
					if c == '(' {
						depth++
					} else if c == ')' {
						depth--
						if depth == 0 {
							j++
							break
						}
					}
				}
				j++
			}
		} else {
			for j < len(script) && script[j] != '\n' {
				j++
			}
		}
		cmd := script[i:j]
		i = j
		if strings.HasPrefix(cmd, "(assert") && (strings.Contains(cmd, "(forall ") || strings.Contains(cmd, "(exists ")) {
			// keep the quantifier-free conjuncts
			pos := 0
			if t := parseSx(cmd, &pos); t != nil && len(t.list) == 2 {
				var keep []string
				var flat func(n *sx)
				flat = func(n *sx) {
					if n.list != nil && len(n.list) > 0 && n.list[0].atom == "and" {
						for _, c := range n.list[1:] {
							flat(c)
						}
						return
					}
					if n.list != nil && len(n.list) == 3 && n.list[0].atom == "!" {
						flat(n.list[1])
						return
					}
					txt := n.String()
					if !strings.Contains(txt, "(forall ") && !strings.Contains(txt, "(exists ") {
						keep = append(keep, txt)
					}
				}
				flat(t.list[1])
				for _, k := range keep {
					b.WriteString("(assert " + k + ")\n")
				}
			}
			continue
		}
		switch cmd {
		case "(declare-fun umod (Int Int) Int)":
			cmd = "(define-fun umod ((a Int) (b Int)) Int (mod a b))"
		case "(declare-fun udiv (Int Int) Int)":
			cmd = "(define-fun udiv ((a Int) (b Int)) Int (div a b))"
		case "(declare-fun utmod (Int Int) Int)":
			cmd = "(define-fun utmod ((a Int) (b Int)) Int (tmod a b))"
		case "(declare-fun utdiv (Int Int) Int)":
			cmd = "(define-fun utdiv ((a Int) (b Int)) Int (tdiv a b))"
		}
		b.WriteString(cmd)
		b.WriteString("\n")
	}
	return b.String()
}

func (n *sx) String() string {
	if n.list == nil {
		return n.atom
	}
	var parts []string
	for _, c := range n.list {
		parts = append(parts, c.String())
	}
	return "(" + strings.Join(parts, " ") + ")"
}

// CoreNames extracts the names listed by (get-unsat-core).
func CoreNames(out string) []string {
	i := strings.Index(out, "(")
	if i < 0 {
		return nil
	}
	j := strings.Index(out[i:], ")")
	if j < 0 {
		return nil
	}
	return strings.Fields(out[i+1 : i+j])
}
