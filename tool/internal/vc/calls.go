package vc

import (
	"fmt"
	"go/token"
	"go/types"
	"sort"
	"strings"

	"golang.org/x/tools/go/ssa"
)

// calleeKey returns the contract key of a function relative to its package.
func calleeKey(fn *ssa.Function) string {
	if fn.Pkg != nil {
		return fn.RelString(fn.Pkg.Pkg)
	}
	if fn.Parent() != nil && fn.Parent().Pkg != nil {
		return fn.RelString(fn.Parent().Pkg.Pkg)
	}
	return fn.String()
}

func fnPkgPath(fn *ssa.Function) string {
	if fn.Pkg != nil {
		return fn.Pkg.Pkg.Path()
	}
	if fn.Parent() != nil {
		return fnPkgPath(fn.Parent())
	}
	if fn.Object() != nil && fn.Object().Pkg() != nil {
		return fn.Object().Pkg().Path()
	}
	return ""
}

// lookupContractFrom first honours a package-local abstraction: an extern contract for the callee (by full
// name) declared in the CALLER's package takes precedence over the callee's own contract.  It is an
// assumed contract (listed as trusted) that lets a package reason about a foreign function through
// its own spec functions.
func (env *Env) lookupContractFrom(fn *ssa.Function, callerPkg string) (*Contract, *SpecFile) {
	if callerPkg != "" && callerPkg != fnPkgPath(fn) {
		if sf, ok := env.Specs[callerPkg]; ok {
			if c, ok := sf.Contracts[fn.String()]; ok && c.Extern {
				return c, sf
			}
		}
	}
	return env.lookupContract(fn)
}

func (env *Env) lookupContract(fn *ssa.Function) (*Contract, *SpecFile) {
	pp := fnPkgPath(fn)
	if sf, ok := env.Specs[pp]; ok {
		if c, ok := sf.Contracts[calleeKey(fn)]; ok {
			return c, sf
		}
	}
	full := fn.String()
	for _, k := range env.specKeys() {
		sf := env.Specs[k]
		if c, ok := sf.Contracts[full]; ok && c.Extern {
			return c, sf
		}
	}
	return nil, nil
}

func (env *Env) specKeys() []string {
	var ks []string
	for k := range env.Specs {
		ks = append(ks, k)
	}
	sort.Strings(ks)
	return ks
}

func (env *Env) lookupIfaceContract(m *types.Func, recvT types.Type) (*Contract, *SpecFile) {
	full := m.FullName() // e.g. (io.Reader).Read
	if named, ok := recvT.(*types.Named); ok && named.Obj().Pkg() != nil {
		if sf, ok := env.Specs[named.Obj().Pkg().Path()]; ok {
			if c, ok := sf.Contracts[named.Obj().Name()+"."+m.Name()]; ok {
				return c, sf
			}
		}
	}
	for _, k := range env.specKeys() {
		sf := env.Specs[k]
		if c, ok := sf.Contracts[full]; ok {
			return c, sf
		}
	}
	return nil, nil
}

func (env *Env) inModule(path string) bool {
	return path == env.Module || strings.HasPrefix(path, env.Module+"/")
}

// pureLibrary reports library functions treated as not touching any memory we model.
func pureLibrary(full string) bool {
	prefixes := []string{
		"fmt.", "log.", "(*log.Logger).", "errors.", "strings.", "strconv.", "math.", "time.", "(time.Time).", "(time.Duration).",
		"(*time.Ticker).", "(*time.Timer).", "(*sync.Mutex).", "(*sync.RWMutex).", "(*sync.WaitGroup).", "(*sync.Once).",
		"os.", "(*os.File).", "path/filepath.", "path.", "(*bufio.Writer).", "bufio.", "unicode.", "math/rand.", "(*math/rand.Rand).",
		"(*bytes.Buffer).Write", "(*bytes.Buffer).Bytes", "(*bytes.Buffer).Len", "bytes.", "runtime.", "sync/atomic.",
		"(*github.com/usnistgov/dastard/asyncbufio.Writer).", "os/signal.", "reflect.", "unsafe.",
		"(*github.com/pebbe/zmq4.Socket).", "github.com/pebbe/zmq4.", "gonum.org/v1/gonum/mat.New", "(*gonum.org/v1/gonum/mat.Dense).Dims", "(*gonum.org/v1/gonum/mat.Dense).At",
		"(*gonum.org/v1/gonum/mat.VecDense).At", "(*gonum.org/v1/gonum/mat.VecDense).Len",
		"github.com/davecgh/go-spew", "(*github.com/spf13/viper.Viper).", "github.com/spf13/viper.", "encoding/json.Marshal", "os/user.", "net.", "(*net.UDPConn).Close", "(*net.UDPConn).Set",
		"(error).Error", "(fmt.Stringer).String", "(io.Closer).Close", "(io.Writer).Write", "io.WriteString", "(*encoding/json.Encoder).",
		"encoding/binary.Write", "(encoding/binary.littleEndian).Uint", "(encoding/binary.bigEndian).Uint", "(encoding/binary.ByteOrder).Uint", "sort.SearchInts", "sort.Search",
		"golang.org/x/", "hash/", "(*gopkg.in/natefinch/lumberjack.v2.Logger).",
	}
	for _, p := range prefixes {
		if strings.HasPrefix(full, p) {
			return true
		}
	}
	return false
}

func (g *FuncGen) execCall(instr ssa.Instruction, c *ssa.CallCommon, v ssa.Value) {
	pos := instr.Pos()
	var post []func()
	g.copyOut = &post
	defer func() {
		g.copyOut = nil
		if r := recover(); r != nil {
			panic(r)
		}
		for _, f := range post {
			f()
		}
	}()
	// builtins
	if b, ok := c.Value.(*ssa.Builtin); ok {
		g.execBuiltin(b, c, v, pos)
		return
	}
	if g.c != nil && len(g.c.Cuts) > 0 {
		name := ""
		if c.IsInvoke() {
			name = c.Method.Name()
		} else if sc := c.StaticCallee(); sc != nil {
			name = sc.Name()
		}
		for _, cut := range g.c.Cuts {
			if cut.Callee != name {
				continue
			}
			cx := g.newSpecCtx(g.st, g.entry)
			cx.locals = true
			cx.at = g.cur
			if g.env.isLemmaInstance(cut.C.E) {
				g.assume(cx.assumeTerm(cut.C.E))
				continue
			}
			g.oblig("cut", "before-"+name+":"+cut.C.Name, cx.boolTerm(cut.C.E), pos, cut.C.Props, cut.C.Src)
			g.assume(cx.assumeTerm(cut.C.E))
		}
	}
	var args []string
	var argVals []ssa.Value
	if c.IsInvoke() {
		iv := g.val(c.Value)
		g.oblig("nil", "", fmt.Sprintf("(not (= (i-typ %s) 0))", iv), pos, nil, "method call on nil interface")
		args = append(args, iv)
		argVals = append(argVals, c.Value)
	}
	for _, a := range c.Args {
		args = append(args, g.argTerm(a))
		argVals = append(argVals, a)
	}
	sig := c.Signature()
	if c.IsInvoke() && g.c != nil && g.c.Opts["queued_only"] != "" {
		// "opt queued_only <Interface> [m1,m2,...]": this function must not call methods of the interface
		// directly (only the listed read-only ones); everything else has to go through a queued closure
		f := strings.Fields(g.c.Opts["queued_only"])
		if named, ok := c.Value.Type().(*types.Named); ok && named.Obj().Name() == f[0] {
			allowed := false
			if len(f) > 1 {
				for _, m := range strings.Split(f[1], ",") {
					if m == c.Method.Name() {
						allowed = true
					}
				}
			}
			if !allowed {
				g.oblig("serialised", c.Method.Name(), "false", pos, nil, "direct call of "+f[0]+"."+c.Method.Name()+" outside a queued request closure")
			}
		}
	}
	if c.IsInvoke() {
		ct, sf := g.env.lookupIfaceContract(c.Method, c.Value.Type())
		if ct != nil {
			g.applyContract(nil, ct, sf, c.Method.Name(), ifaceParamNames(c.Method), paramTypes(c.Value.Type(), sig), args, sig, v, pos)
			return
		}
		full := c.Method.FullName()
		g.defaultCall(full, pureLibrary(full), argVals, args, sig, v, pos, nil)
		return
	}
	callee := c.StaticCallee()
	if callee == nil {
		// dynamic call of a function value
		if mc, ok := c.Value.(*ssa.MakeClosure); ok {
			callee = mc.Fn.(*ssa.Function)
		}
	}
	g.closureBindings = nil
	if mc, ok := c.Value.(*ssa.MakeClosure); ok && callee != nil {
		// the captured variables of a closure are bound to the addresses of the caller's cells
		g.closureBindings = map[string]sval{}
		for i, fv := range callee.FreeVars {
			if i < len(mc.Bindings) {
				g.closureBindings["&"+fv.Name()] = sval{t: g.argTerm(mc.Bindings[i]), typ: fv.Type(), kind: "val"}
			}
		}
	}
	if callee == nil {
		g.assumptions["call of a function value in "+g.key+": treated as having no effect on modelled memory"] = true
		g.defaultCall("func-value", true, argVals, args, sig, v, pos, nil)
		return
	}
	ct, sf := g.env.lookupContractFrom(callee, fnPkgPath(g.fn))
	if ct != nil && ct.Opts["optin"] != "" && (g.c == nil || g.c.Opts[ct.Opts["optin"]] == "") {
		// an opt-in library model (e.g. the lock model): used only by callers whose contract asks for it
		ct = nil
	}
	if ct != nil {
		var names []string
		var ptypes []types.Type
		if len(callee.Params) > 0 {
			for _, p := range callee.Params {
				names = append(names, p.Name())
				ptypes = append(ptypes, p.Type())
			}
		} else {
			names, ptypes = sigParamNames(callee.Signature)
		}
		// closure: bindings are extra leading args in c.Args? no: free vars are bound at MakeClosure
		g.applyContract(callee, ct, sf, calleeKey(callee), names, ptypes, args, sig, v, pos)
		return
	}
	full := callee.String()
	if g.env.inModule(fnPkgPath(callee)) && len(callee.Blocks) > 0 {
		// module function without contract: small loop-free ones are executed in place
		if g.inlineCall(callee, args, sig, v) {
			return
		}
		// otherwise havoc its static effects entirely
		eff := g.env.Effects(callee)
		g.warnings = append(g.warnings, fmt.Sprintf("%s: callee %s has no contract; its static effects are havocked", g.key, calleeKey(callee)))
		g.assumptions["uncontracted module callee "+calleeKey(callee)+" (called from "+g.key+"): effects havocked, no precondition checked"] = true
		g.defaultCall(full, false, argVals, args, sig, v, pos, eff)
		return
	}
	pure := pureLibrary(full)
	if !pure {
		g.assumptions["library call "+full+": only memory directly reachable from its pointer/slice arguments is havocked"] = true
	}
	g.defaultCall(full, pure, argVals, args, sig, v, pos, nil)
}

func (g *FuncGen) argTerm(a ssa.Value) string {
	if ad, ok := g.addrs[a]; ok {
		switch ad.kind {
		case aRefStruct, aArr, aHeapCell:
			return ad.ref
		case aCell, aGlobal, aElem, aHeapField:
			// address of (part of) a local variable, of a slice element or of a scalar field passed to a
			// callee: copy-in / copy-out through a fresh heap object (sound when the callee does not retain
			// the pointer and has no other access path to the same location)
			pt := deref(a.Type())
			if pt != nil && g.copyOut != nil {
				if _, isArr := pt.Underlying().(*types.Array); !isArr {
					g.assumptions["address of a local passed to a callee is modelled by copy-in/copy-out (callee must not retain it)"] = true
					r := g.freshRef()
					cur := g.load(ad)
					if _, isS := isStruct(pt); isS {
						cv := g.def("cin", g.sc.sortOf(pt), cur)
						g.storeStruct(r, pt, cv)
						*g.copyOut = append(*g.copyOut, func() { g.store(ad, g.loadStruct(g.st, r, pt)) })
					} else {
						k := g.sc.cellComp(pt)
						g.update(k, fmt.Sprintf("(store %s %s %s)", g.get(g.st, k), r, cur))
						*g.copyOut = append(*g.copyOut, func() { g.store(ad, fmt.Sprintf("(select %s %s)", g.get(g.st, k), r)) })
					}
					return r
				}
			}
			return "0"
		default:
			// address of a field/element/local passed to a call: opaque token; callee effect handled by defaultCall
			return "0"
		}
	}
	return g.val(a)
}

func ifaceParamNames(m *types.Func) []string {
	sig := m.Type().(*types.Signature)
	names := []string{"self"}
	for i := 0; i < sig.Params().Len(); i++ {
		n := sig.Params().At(i).Name()
		if n == "" || n == "_" {
			n = fmt.Sprintf("arg%d", i)
		}
		names = append(names, n)
	}
	return names
}

func paramTypes(recv types.Type, sig *types.Signature) []types.Type {
	ts := []types.Type{recv}
	for i := 0; i < sig.Params().Len(); i++ {
		ts = append(ts, sig.Params().At(i).Type())
	}
	return ts
}

func sigParamNames(sig *types.Signature) ([]string, []types.Type) {
	var names []string
	var ts []types.Type
	if sig.Recv() != nil {
		n := sig.Recv().Name()
		if n == "" || n == "_" {
			n = "self"
		}
		names = append(names, n)
		ts = append(ts, sig.Recv().Type())
	}
	for i := 0; i < sig.Params().Len(); i++ {
		n := sig.Params().At(i).Name()
		if n == "" || n == "_" {
			n = fmt.Sprintf("arg%d", i)
		}
		names = append(names, n)
		ts = append(ts, sig.Params().At(i).Type())
	}
	return names, ts
}

func resultNames(sig *types.Signature, c *Contract) []string {
	var names []string
	n := sig.Results().Len()
	for i := 0; i < n; i++ {
		nm := sig.Results().At(i).Name()
		if c != nil && i < len(c.Results) {
			nm = c.Results[i]
		}
		if nm == "" || nm == "_" {
			if n == 1 {
				nm = "result"
			} else {
				nm = fmt.Sprintf("result%d", i)
			}
		}
		names = append(names, nm)
	}
	return names
}

// declareResults creates fresh result values for a call.
func (g *FuncGen) declareResults(sig *types.Signature, v ssa.Value) []string {
	var res []string
	for i := 0; i < sig.Results().Len(); i++ {
		t := sig.Results().At(i).Type()
		r := g.declare("res", g.sc.sortOf(t))
		res = append(res, r)
	}
	return res
}

func (g *FuncGen) bindResults(sig *types.Signature, v ssa.Value, res []string) {
	for i, r := range res {
		g.assumeValid(sig.Results().At(i).Type(), r)
	}
	if v == nil {
		return
	}
	switch len(res) {
	case 0:
	case 1:
		g.vals[v] = res[0]
	default:
		g.tups[v] = res
	}
}

func (g *FuncGen) applyContract(callee *ssa.Function, ct *Contract, sf *SpecFile, ckey string, names []string, ptypes []types.Type, args []string, sig *types.Signature, v ssa.Value, pos token.Pos) {
	pkg := g.fn.Pkg.Pkg
	if callee != nil {
		if callee.Pkg != nil {
			pkg = callee.Pkg.Pkg
		} else if callee.Parent() != nil && callee.Parent().Pkg != nil {
			pkg = callee.Parent().Pkg.Pkg
		}
	}
	if sfp, ok := g.env.byPath[sf.PkgPath]; ok && (callee == nil || ct.Extern) {
		pkg = sfp.Types
	}
	bindings := g.closureBindings
	g.closureBindings = nil
	mk := func(st, old *State) *SpecCtx {
		cx := &SpecCtx{g: g, st: st, old: old, vars: map[string]sval{}, pkg: pkg, spec: sf, fn: callee}
		for i, n := range names {
			if i < len(args) {
				cx.vars[n] = sval{t: args[i], typ: ptypes[i], kind: "val"}
			}
		}
		for n, v := range bindings {
			cx.vars[n] = v
		}
		// a callee whose parameters were renamed since its contract was written: bind the recorded names too
		if callee != nil {
			if rec := g.env.Bindings[fnPkgPath(callee)+"|"+calleeKey(callee)]; rec != nil && len(rec.Params) == len(names) {
				for i, rp := range rec.Params {
					on := rp[:strings.Index(rp, "|")]
					if _, have := cx.vars[on]; !have && on != names[i] && i < len(args) {
						cx.vars[on] = sval{t: args[i], typ: ptypes[i], kind: "val"}
					}
				}
			}
		}
		return cx
	}
	if len(names) != len(args) {
		unsup("call to %s: %d parameter names but %d arguments", ckey, len(names), len(args))
	}
	pre := g.st.clone()
	cxPre := mk(pre, pre)
	cxPre.callerEntry = g.entry
	// implicit non-nil pointer receiver
	if sig.Recv() != nil && len(args) > 0 {
		if _, ok := ptypes[0].Underlying().(*types.Pointer); ok && !g.isFreshRef(args[0]) && !g.interior[args[0]] {
			g.oblig("requires", ckey+":receiver-non-nil", fmt.Sprintf("(not (= %s 0))", args[0]), pos, nil, "receiver must be non-nil")
		}
	}
	for i, r := range ct.Requires {
		lab := r.Name
		if lab == "" {
			lab = fmt.Sprintf("%d", i+1)
		}
		cj := cxPre.conjuncts(r.E)
		for ci, t := range cj {
			l2 := lab
			if len(cj) > 1 {
				l2 = fmt.Sprintf("%s.%d", lab, ci+1)
			}
			g.oblig("requires", ckey+":"+l2, t, pos, r.Props, r.Src)
		}
	}
	// effects
	var eff map[string]bool
	var locs []location
	for _, m := range ct.Modifies {
		locs = append(locs, cxPre.locations(m.E)...)
	}
	if callee != nil && len(callee.Blocks) > 0 && !ct.Extern && !ct.Trusted {
		eff = g.env.Effects(callee)
	} else {
		eff = map[string]bool{}
		for _, l := range locs {
			eff[l.comp] = true
		}
		if !ct.Pure {
			eff["alloc"] = true
		}
	}
	for _, l := range locs {
		eff[l.comp] = true
	}
	g.havocWithFrame(eff, locs, pre)
	res := g.declareResults(sig, v)
	g.bindResults(sig, v, res)
	cxPost := mk(g.st, pre)
	rn := resultNames(sig, ct)
	for i, r := range res {
		cxPost.vars[rn[i]] = sval{t: r, typ: sig.Results().At(i).Type(), kind: "val"}
	}
	if ct.Opts["count_sends"] != "" {
		// the callee's own send counter is not visible to the caller
		cxPost.vars["sends"] = sval{t: g.declare("callee_sends", "Int"), kind: "int"}
	}
	for _, fv := range ct.Fresh {
		if !(ct.Extern || ct.Trusted) {
			unsup("fresh witnesses are only supported on extern/trusted contracts (%s)", ckey)
		}
		switch fv.Type {
		case "intmap":
			cxPost.vars[fv.Name] = sval{t: g.declare("wit:"+fv.Name, "(Array Int Int)"), kind: "intmap"}
		case "int":
			cxPost.vars[fv.Name] = sval{t: g.declare("wit:"+fv.Name, "Int"), kind: "int"}
		default:
			unsup("fresh witness type %s", fv.Type)
		}
	}
	for _, e := range ct.Ensures {
		g.assume(cxPost.assumeTerm(e.E))
	}
	if ct.Extern || ct.Trusted {
		g.assumptions["trusted contract assumed for "+ckey] = true
	}
}

// havocWithFrame gives every component in eff a new version, preserving (for references that
// existed before) everything outside the given locations.
func (g *FuncGen) havocWithFrame(eff map[string]bool, locs []location, pre *State) {
	preAlloc := g.get(pre, "alloc")
	for _, k := range sortedKeys(eff) {
		if k == "alloc" {
			continue
		}
		if _, isCell := g.cellSort[k]; isCell {
			g.havoc(k)
			if t, ok := g.cellType[k]; ok {
				g.assumeValid(t, g.st.m[k])
			}
			continue
		}
		old := g.get(pre, k)
		nw := g.havoc(k)
		var excl []string
		for _, l := range locs {
			if l.comp == k {
				excl = append(excl, fmt.Sprintf("(not %s)", l.member("fr!r")))
			}
		}
		body := fmt.Sprintf("(=> %s (= (select %s fr!r) (select %s fr!r)))", and(append([]string{existedAt("fr!r", preAlloc)}, excl...)...), nw, old)
		g.assume(fmt.Sprintf("(forall ((fr!r Int)) (! %s :pattern ((select %s fr!r))))", body, nw))
	}
	if eff["alloc"] {
		na := g.havoc("alloc")
		g.assume(fmt.Sprintf("(>= %s %s)", na, preAlloc))
	}
}

// defaultCall models a call without contract.
func (g *FuncGen) defaultCall(full string, pure bool, argVals []ssa.Value, args []string, sig *types.Signature, v ssa.Value, pos token.Pos, eff map[string]bool) {
	if eff != nil {
		pre := g.st.clone()
		// module callee without contract: havoc components wholesale (no frame)
		for _, k := range sortedKeys(eff) {
			if k == "alloc" {
				continue
			}
			g.havoc(k)
		}
		if eff["alloc"] {
			na := g.havoc("alloc")
			g.assume(fmt.Sprintf("(>= %s %s)", na, g.get(pre, "alloc")))
		}
	} else if !pure {
		for i, a := range argVals {
			g.havocArgMemory(a, args[i])
		}
	}
	// pointer results of library calls are fresh or arbitrary valid references
	res := g.declareResults(sig, v)
	if sig.Results().Len() > 0 {
		// results may be freshly allocated: bump alloc first so validity (< alloc) is satisfiable for fresh objects
		na := g.declare("alloc", "Int")
		g.assume(fmt.Sprintf("(>= %s %s)", na, g.alloc()))
		if len(g.curLoop) == 0 || g.allLoopsModify("alloc") {
			g.set("alloc", na)
		}
	}
	g.bindResults(sig, v, res)
}

func (g *FuncGen) allLoopsModify(k string) bool {
	for _, l := range g.curLoop {
		if !l.modified[k] {
			return false
		}
	}
	return true
}

// havocArgMemory havocs memory directly reachable from a library-call argument.
func (g *FuncGen) havocArgMemory(a ssa.Value, term string) {
	if mi, ok := a.(*ssa.MakeInterface); ok {
		g.havocArgMemory(mi.X, g.argTerm(mi.X))
		return
	}
	if ad, ok := g.addrs[a]; ok {
		switch ad.kind {
		case aCell, aGlobal:
			// address of a local escaping? (cannot happen for non-heap cells)
		case aHeapField:
			cur := g.get(g.st, ad.comp)
			nv := g.declare("hv", g.sc.sortOf(ad.typ))
			g.assumeValid(ad.typ, nv)
			g.update(ad.comp, fmt.Sprintf("(store %s %s %s)", cur, ad.ref, nv))
			return
		case aElem:
			cur := g.get(g.st, ad.comp)
			nv := g.declare("hv", g.sc.sortOf(ad.typ))
			g.assumeValid(ad.typ, nv)
			g.update(ad.comp, fmt.Sprintf("(store %s %s (store (select %s %s) %s %s))", cur, ad.arr, cur, ad.arr, ad.idx, nv))
			return
		}
	}
	switch t := a.Type().Underlying().(type) {
	case *types.Slice:
		if _, ok := isStruct(t.Elem()); ok {
			return
		}
		k := g.sc.elemComp(t.Elem())
		cur := g.get(g.st, k)
		nv := g.declare("hv", "(Array Int "+g.sc.sortOf(t.Elem())+")")
		g.update(k, fmt.Sprintf("(store %s (s-arr %s) %s)", cur, term, nv))
	case *types.Pointer:
		et := t.Elem()
		if st, ok := isStruct(et); ok {
			if named, ok := et.(*types.Named); ok && named.Obj().Pkg() != nil && !g.env.inModule(named.Obj().Pkg().Path()) {
				return // opaque library object
			}
			_ = st
			var comps []string
			g.sc.leafComps(et, map[string]bool{}, &comps)
			for _, loc := range g.newSpecCtx(g.st, g.st).allFields(term, et) {
				cur := g.get(g.st, loc.comp)
				ci := g.env.comps[loc.comp]
				nv := g.declare("hv", g.sc.sortOf(ci.t))
				g.assumeValid(ci.t, nv)
				g.update(loc.comp, fmt.Sprintf("(store %s %s %s)", cur, loc.ref, nv))
			}
			return
		}
		if _, ok := et.Underlying().(*types.Array); ok {
			return
		}
		k := g.sc.cellComp(et)
		cur := g.get(g.st, k)
		nv := g.declare("hv", g.sc.sortOf(et))
		g.assumeValid(et, nv)
		g.update(k, fmt.Sprintf("(store %s %s %s)", cur, term, nv))
	}
}

func (g *FuncGen) execBuiltin(b *ssa.Builtin, c *ssa.CallCommon, v ssa.Value, pos token.Pos) {
	switch b.Name() {
	case "len":
		a := c.Args[0]
		x := g.val(a)
		switch t := a.Type().Underlying().(type) {
		case *types.Slice:
			g.vals[v] = g.def("v:"+v.Name(), "Int", fmt.Sprintf("(s-len %s)", x))
		case *types.Basic:
			g.vals[v] = g.def("v:"+v.Name(), "Int", fmt.Sprintf("(strlen %s)", x))
		case *types.Map:
			dom, _ := g.sc.mapComps(t)
			d := g.defConst("mdom", "(Array "+g.sc.sortOf(t.Key())+" Bool)", fmt.Sprintf("(select %s %s)", g.get(g.st, dom), x))
			lt, facts := g.sc.mapLen(g.sc.sortOf(t.Key()), d)
			g.assumeAll(facts)
			g.vals[v] = g.def("v:"+v.Name(), "Int", fmt.Sprintf("(ite (= %s 0) 0 %s)", x, lt))
		case *types.Chan:
			n := g.declare("chanlen", "Int")
			g.assume(fmt.Sprintf("(>= %s 0)", n))
			g.vals[v] = n
		case *types.Array:
			g.vals[v] = fmt.Sprint(t.Len())
		case *types.Pointer:
			g.vals[v] = fmt.Sprint(t.Elem().Underlying().(*types.Array).Len())
		default:
			unsup("len of %s", a.Type())
		}
	case "cap":
		a := c.Args[0]
		switch a.Type().Underlying().(type) {
		case *types.Slice:
			g.vals[v] = g.def("v:"+v.Name(), "Int", fmt.Sprintf("(s-cap %s)", g.val(a)))
		default:
			n := g.declare("cap", "Int")
			g.assume(fmt.Sprintf("(>= %s 0)", n))
			g.vals[v] = n
		}
	case "append":
		g.execAppend(c, v, pos)
	case "copy":
		g.execCopy(c, v, pos)
	case "delete":
		mt := c.Args[0].Type().Underlying().(*types.Map)
		m := g.val(c.Args[0])
		k := g.val(c.Args[1])
		dom, _ := g.sc.mapComps(mt)
		d := g.get(g.st, dom)
		ks := g.sc.sortOf(mt.Key())
		od := g.defConst("mdom", "(Array "+ks+" Bool)", fmt.Sprintf("(select %s %s)", d, m))
		nd := g.defConst("mdom", "(Array "+ks+" Bool)", fmt.Sprintf("(store %s %s false)", od, k))
		g.assumeAll(g.sc.mapLenStore(ks, od, nd, k, false))
		g.update(dom, fmt.Sprintf("(store %s %s %s)", d, m, nd))
	case "close":
		// closing a channel: no modelled effect
	case "print", "println":
	case "min", "max":
		t := v.Type()
		f := "i" + b.Name()
		if isFloat(t) {
			f = "r" + b.Name()
		}
		e := g.val(c.Args[0])
		for _, a := range c.Args[1:] {
			e = fmt.Sprintf("(%s %s %s)", f, e, g.val(a))
		}
		g.vals[v] = g.def("v:"+v.Name(), g.sc.sortOf(t), e)
	case "recover":
		g.vals[v] = "(mk-iface 0 0)"
	case "ssa:wrapnilchk":
		g.vals[v] = g.val(c.Args[0])
	case "ssa:deferstack":
		g.vals[v] = "0"
	default:
		unsup("builtin %s", b.Name())
	}
}

func (g *FuncGen) execAppend(c *ssa.CallCommon, v ssa.Value, pos token.Pos) {
	s := g.val(c.Args[0])
	st := c.Args[0].Type().Underlying().(*types.Slice)
	et := st.Elem()
	if _, ok := isStruct(et); ok {
		g.execAppendStructs(c, v, et)
		return
	}
	k := g.sc.elemComp(et)
	esort := g.sc.sortOf(et)
	E := g.get(g.st, k)
	var n, tarr, toff string
	if bt, ok := c.Args[1].Type().Underlying().(*types.Basic); ok && bt.Info()&types.IsString != 0 {
		unsup("append(bytes, string...)")
	}
	t := g.val(c.Args[1])
	n = g.defConst("app_n", "Int", fmt.Sprintf("(s-len %s)", t))
	tarr = g.defConst("app_src", "(Array Int "+esort+")", fmt.Sprintf("(select %s (s-arr %s))", E, t))
	toff = g.defConst("app_soff", "Int", fmt.Sprintf("(s-off %s)", t))
	inplace := g.def("app_inplace", "Bool", fmt.Sprintf("(and (<= (+ (s-len %s) %s) (s-cap %s)) (not (= (s-arr %s) 0)))", s, n, s, s))
	// fresh array (only used when not in place)
	fr := g.def("ref", "Int", g.alloc())
	g.update("alloc", fmt.Sprintf("(+ %s 1)", g.alloc()))
	rarr := g.def("app_arr", "Int", fmt.Sprintf("(ite %s (s-arr %s) %s)", inplace, s, fr))
	roff := g.defConst("app_off", "Int", fmt.Sprintf("(ite %s (s-off %s) 0)", inplace, s))
	newcap := g.declare("app_cap", "Int")
	slen := g.defConst("app_len", "Int", fmt.Sprintf("(s-len %s)", s))
	soff := g.defConst("app_doff", "Int", fmt.Sprintf("(s-off %s)", s))
	g.assume(fmt.Sprintf("(ite %s (= %s (s-cap %s)) (>= %s (+ %s %s)))", inplace, newcap, s, newcap, slen, n))
	aold := g.defConst("app_old", "(Array Int "+esort+")", fmt.Sprintf("(select %s (s-arr %s))", E, s))
	N := g.declare("app_new", "(Array Int "+esort+")")
	// contents of the result array, stated over the absolute index k! (robust trigger (select N k!))
	g.assume(fmt.Sprintf("(forall ((k! Int)) (! (=> (and (<= %s k!) (< k! (+ %s %s))) (= (select %s k!) (select %s (+ %s (- k! %s))))) :pattern ((select %s k!))))", roff, roff, slen, N, aold, soff, roff, N))
	g.assume(fmt.Sprintf("(forall ((k! Int)) (! (=> (and (<= (+ %s %s) k!) (< k! (+ %s %s %s))) (= (select %s k!) (select %s (+ %s (- k! (+ %s %s)))))) :pattern ((select %s k!))))", roff, slen, roff, slen, n, N, tarr, toff, roff, slen, N))
	g.assume(fmt.Sprintf("(=> %s (forall ((k! Int)) (! (=> (or (< k! (+ %s %s)) (>= k! (+ %s %s %s))) (= (select %s k!) (select %s k!))) :pattern ((select %s k!)))))", inplace, soff, slen, soff, slen, n, N, aold, N))
	g.update(k, fmt.Sprintf("(store %s %s %s)", E, rarr, N))
	g.vals[v] = g.def("v:"+v.Name(), "Slice", fmt.Sprintf("(mk-slice %s %s (+ %s %s) %s)", rarr, roff, slen, n, newcap))
}

func (g *FuncGen) execCopy(c *ssa.CallCommon, v ssa.Value, pos token.Pos) {
	d := g.val(c.Args[0])
	dt := c.Args[0].Type().Underlying().(*types.Slice)
	et := dt.Elem()
	if _, ok := isStruct(et); ok {
		unsup("copy of slice of structs")
	}
	if _, ok := c.Args[1].Type().Underlying().(*types.Slice); !ok {
		unsup("copy from string")
	}
	s := g.val(c.Args[1])
	k := g.sc.elemComp(et)
	esort := g.sc.sortOf(et)
	E := g.get(g.st, k)
	n := g.defConst("copy_n", "Int", fmt.Sprintf("(imin (s-len %s) (s-len %s))", d, s))
	dold := g.defConst("copy_dold", "(Array Int "+esort+")", fmt.Sprintf("(select %s (s-arr %s))", E, d))
	sold := g.defConst("copy_sold", "(Array Int "+esort+")", fmt.Sprintf("(select %s (s-arr %s))", E, s))
	doff := g.defConst("copy_doff", "Int", fmt.Sprintf("(s-off %s)", d))
	sof := g.defConst("copy_soff", "Int", fmt.Sprintf("(s-off %s)", s))
	N := g.declare("copy_new", "(Array Int "+esort+")")
	g.assume(fmt.Sprintf("(forall ((k! Int)) (! (=> (and (<= %s k!) (< k! (+ %s %s))) (= (select %s k!) (select %s (+ %s (- k! %s))))) :pattern ((select %s k!))))", doff, doff, n, N, sold, sof, doff, N))
	g.assume(fmt.Sprintf("(forall ((k! Int)) (! (=> (or (< k! %s) (>= k! (+ %s %s))) (= (select %s k!) (select %s k!))) :pattern ((select %s k!))))", doff, doff, n, N, dold, N))
	// n == 0: nothing changes
	g.update(k, fmt.Sprintf("(ite (> %s 0) (store %s (s-arr %s) %s) %s)", n, E, d, N, E))
	if v != nil {
		g.vals[v] = n
	}
}

func (g *FuncGen) execRunDefers(x *ssa.RunDefers) {
	for i := len(g.defers) - 1; i >= 0; i-- {
		d := g.defers[i]
		if d.Block().Dominates(x.Block()) {
			g.execCall(d, &d.Call, nil)
			continue
		}
		// conditional defer: the call runs iff the defer statement was executed
		for _, l := range g.loops {
			if l.body[d.Block().Index] {
				unsup("defer inside a loop in %s", g.key)
			}
		}
		cond, ok := g.reach[d.Block().Index]
		if !ok {
			continue // the defer statement is unreachable
		}
		before := g.st.clone()
		saveGuard := g.guard
		g.guard = and(saveGuard, cond)
		g.execCall(d, &d.Call, nil)
		g.guard = saveGuard
		after := g.st
		merged := before.clone()
		keys := map[string]bool{}
		for k := range after.m {
			keys[k] = true
		}
		for _, k := range sortedKeys(keys) {
			a := g.get(after, k)
			b := g.get(before, k)
			if a != b {
				merged.m[k] = g.defState(k, fmt.Sprintf("(ite %s %s %s)", cond, a, b))
			}
		}
		g.st = merged
	}
}

func (g *FuncGen) noteSend(ch ssa.Value) {
	// sends are counted on a ghost counter per channel-typed cell when the contract asks (opt count_sends)
	if g.c == nil || g.c.Opts["count_sends"] == "" {
		return
	}
	key := "cell:ghost:sends"
	if _, ok := g.cellSort[key]; !ok {
		g.cellSort[key] = "Int"
		g.cellType[key] = types.Typ[types.Int]
	}
	if target := g.c.Opts["count_sends"]; target != "true" {
		// count only sends on the channel named by the option (an expression over the entry state)
		e, err := ParseExpr(target)
		if err != nil {
			panic(specErr{err.Error()})
		}
		cx := g.newSpecCtx(g.entry, g.entry)
		t := cx.eval(e)
		if t.typ != nil && !types.Identical(t.typ, ch.Type()) {
			// a channel of another type can never be the counted channel
			return
		}
		g.update(key, fmt.Sprintf("(+ %s (ite (= %s %s) 1 0))", g.get(g.st, key), g.val(ch), t.t))
		return
	}
	g.update(key, fmt.Sprintf("(+ %s 1)", g.get(g.st, key)))
}

// checkExit emits postcondition and frame obligations at a return.
func (g *FuncGen) checkExit(res []string, pos token.Pos) {
	g.retStates++
	ob := g.oblig("cover", fmt.Sprintf("return-reachable-%d", g.retStates), "false", pos, nil, "some return must be reachable")
	ob.Cover = true
	if g.c == nil {
		return
	}
	cx := g.newSpecCtx(g.st, g.entry)
	rn := resultNames(g.fn.Signature, g.c)
	for i, r := range res {
		cx.vars[rn[i]] = sval{t: r, typ: g.fn.Signature.Results().At(i).Type(), kind: "val"}
	}
	if _, ok := g.cellSort["cell:ghost:sends"]; ok {
		cx.vars["sends"] = sval{t: g.get(g.st, "cell:ghost:sends"), kind: "int"}
	} else if g.c.Opts["count_sends"] != "" {
		cx.vars["sends"] = sval{t: "0", kind: "int"}
	}
	g.execGhost("exit", cx)
	for _, h := range g.c.Hints {
		if g.concrete {
			break // hints are proof steps about the symbolic execution, not facts about an observed state
		}
		hcx := *cx
		hcx.locals = true
		hcx.at = g.cur
		g.oblig("hint", h.Name, hcx.boolTerm(h.E), pos, h.Props, h.Src)
		g.assume(hcx.assumeTerm(h.E))
	}
	for i, e := range g.c.Ensures {
		lab := e.Name
		if lab == "" {
			lab = fmt.Sprintf("%d", i+1)
		}
		if g.retStates > 1 {
			lab = fmt.Sprintf("%s@ret%d", lab, g.retStates)
		}
		cj := cx.conjuncts(e.E)
		for ci, t := range cj {
			l2 := lab
			if len(cj) > 1 {
				l2 = fmt.Sprintf("%s.%d", lab, ci+1)
			}
			g.oblig("ensures", l2, t, pos, e.Props, e.Src)
		}
	}
	if g.concrete {
		return
	}
	// frame: every component changed since entry is unchanged outside the modifies locations
	cxE := g.newSpecCtx(g.entry, g.entry)
	var locs []location
	for _, m := range g.c.Modifies {
		locs = append(locs, cxE.locations(m.E)...)
	}
	entryAlloc := g.get(g.entry, "alloc")
	var changed []string
	for k := range g.st.m {
		if _, isCell := g.cellSort[k]; isCell || k == "alloc" {
			continue
		}
		if g.get(g.entry, k) != g.st.m[k] {
			changed = append(changed, k)
		}
	}
	for _, k := range sortedKeys(toSet(changed)) {
		var excl []string
		for _, l := range locs {
			if l.comp == k {
				excl = append(excl, fmt.Sprintf("(not %s)", l.member("fr!r")))
			}
		}
		body := fmt.Sprintf("(forall ((fr!r Int)) (=> %s (= (select %s fr!r) (select %s fr!r))))",
			and(append([]string{existedAt("fr!r", entryAlloc)}, excl...)...), g.st.m[k], g.get(g.entry, k))
		flab := k
		if g.retStates > 1 {
			flab = fmt.Sprintf("%s@ret%d", k, g.retStates)
		}
		g.oblig("frame", flab, body, pos, nil, "only locations listed in modifies may change: "+k)
	}
}

func toSet(xs []string) map[string]bool {
	m := map[string]bool{}
	for _, x := range xs {
		m[x] = true
	}
	return m
}


// execGhost performs the ghost assignments registered for a program point.
func (g *FuncGen) execGhost(at string, cx *SpecCtx) {
	for _, gs := range g.c.Ghost {
		if gs.At != at {
			continue
		}
		if ix, ok := gs.Target.(*EIndex); ok {
			bv, ok := ix.I.(*EIdent)
			isPoint := !ok
			if ok && strings.HasPrefix(at, "loop") {
				// inside a loop an identifier that names a program variable denotes a point update
				if len(g.cellName[bv.Name]) > 0 {
					isPoint = true
				}
			}
			if id, isId := ix.X.(*EIdent); isId {
				if key, kind, isGV := g.ghostVar(id.Name); isGV {
					// point update of a ghost global map
					var idx string
					if strings.HasPrefix(kind, "str") && kind != "strmap" {
						idx = cx.eval(ix.I).t
					} else {
						idx = cx.intTerm(ix.I)
					}
					g.update(key, fmt.Sprintf("(store %s %s %s)", g.get(g.st, key), idx, cx.eval(gs.Value).t))
					continue
				}
			}
			if isPoint {
				// point update of a ghost map: m[idx] := value
				locs := cx.locations(ix.X)
				if len(locs) != 1 {
					cx.fail("ghost target must be a single location: %s", gs.Src)
				}
				loc := locs[0]
				idx := cx.intTerm(ix.I)
				v := cx.eval(gs.Value)
				cur := g.get(g.st, loc.comp)
				g.update(loc.comp, fmt.Sprintf("(store %s %s (store (select %s %s) %s %s))", cur, loc.ref, cur, loc.ref, idx, v.t))
				continue
			}
			locs := cx.locations(ix.X)
			if len(locs) != 1 {
				cx.fail("ghost target must be a single location: %s", gs.Src)
			}
			loc := locs[0]
			msort := "(Array Int Int)"
			if ci, ok := g.env.comps[loc.comp]; ok && ci.kind == "ghoststr" {
				msort = "(Array Int Str)"
			} else if ok && ci.kind == "ghostset" {
				msort = "(Array Int Bool)"
			} else if ok && ci.kind == "ghostreal" {
				msort = "(Array Int Real)"
			}
			N := g.declare("ghostmap", msort)
			name := fmt.Sprintf("%s!g%d", bv.Name, g.sc.counter)
			g.sc.counter++
			n := *cx
			n.vars = map[string]sval{}
			for k, v := range cx.vars {
				n.vars[k] = v
			}
			n.vars[bv.Name] = sval{t: name, kind: "int", bound: true}
			var ax []string
			n.axioms = &ax
			g.sc.Quant++
			v := n.eval(gs.Value)
			g.sc.Quant--
			body := fmt.Sprintf("(= (select %s %s) %s)", N, name, v.t)
			if len(ax) > 0 {
				body = and(append(ax, body)...)
			}
			g.assume(fmt.Sprintf("(forall ((%s Int)) (! %s :pattern ((select %s %s))))", name, body, N, name))
			g.update(loc.comp, fmt.Sprintf("(store %s %s %s)", g.get(g.st, loc.comp), loc.ref, N))
			g.assumptions["ghost state updated by definitional ghost assignment in "+g.key] = true
			continue
		}
		if id, ok := gs.Target.(*EIdent); ok {
			if key, _, isGV := g.ghostVar(id.Name); isGV {
				g.update(key, cx.eval(gs.Value).t)
				continue
			}
		}
		locs := cx.locations(gs.Target)
		if len(locs) != 1 {
			cx.fail("ghost target must be a single location: %s", gs.Src)
		}
		v := cx.eval(gs.Value)
		g.update(locs[0].comp, fmt.Sprintf("(store %s %s %s)", g.get(g.st, locs[0].comp), locs[0].ref, v.t))
	}
}

// structLeaf is one scalar leaf of a struct element type: its heap component and the path from the
// element reference to the object holding the field.
type structLeaf struct {
	comp string
	ft   types.Type
	wrap func(string) string
}

func (g *FuncGen) structLeaves(t types.Type, wrap func(string) string, out *[]structLeaf) {
	st, _ := isStruct(t)
	for i := 0; i < st.NumFields(); i++ {
		ft := st.Field(i).Type()
		if _, ok := isStruct(ft); ok {
			ii, tt, w := i, t, wrap
			g.structLeaves(ft, func(ref string) string {
				r, _ := g.sc.fldRef(tt, ii, w(ref))
				return r
			}, out)
		} else {
			*out = append(*out, structLeaf{g.sc.fieldCompReg(t, i), ft, wrap})
		}
	}
}

// execAppendStructs: append on a slice whose elements are structs.  Elements are interior objects of
// the backing array (elemRef), so the copy is stated per leaf field component.
func (g *FuncGen) execAppendStructs(c *ssa.CallCommon, v ssa.Value, et types.Type) {
	s := g.val(c.Args[0])
	t := g.val(c.Args[1])
	n := g.defConst("app_n", "Int", fmt.Sprintf("(s-len %s)", t))
	tarr := g.defConst("app_sarr", "Int", fmt.Sprintf("(s-arr %s)", t))
	toff := g.defConst("app_soff", "Int", fmt.Sprintf("(s-off %s)", t))
	inplace := g.defConst("app_inplace", "Bool", fmt.Sprintf("(and (<= (+ (s-len %s) %s) (s-cap %s)) (not (= (s-arr %s) 0)))", s, n, s, s))
	fr := g.def("ref", "Int", g.alloc())
	g.update("alloc", fmt.Sprintf("(+ %s 1)", g.alloc()))
	rarr := g.defConst("app_arr", "Int", fmt.Sprintf("(ite %s (s-arr %s) %s)", inplace, s, fr))
	roff := g.defConst("app_off", "Int", fmt.Sprintf("(ite %s (s-off %s) 0)", inplace, s))
	newcap := g.declare("app_cap", "Int")
	slen := g.defConst("app_len", "Int", fmt.Sprintf("(s-len %s)", s))
	soff := g.defConst("app_doff", "Int", fmt.Sprintf("(s-off %s)", s))
	sarr := g.defConst("app_darr", "Int", fmt.Sprintf("(s-arr %s)", s))
	g.assume(fmt.Sprintf("(ite %s (= %s (s-cap %s)) (>= %s (+ %s %s)))", inplace, newcap, s, newcap, slen, n))
	var leaves []structLeaf
	g.structLeaves(et, func(r string) string { return r }, &leaves)
	for _, lf := range leaves {
		H := g.get(g.st, lf.comp)
		N := g.declare("app_new", fmt.Sprintf("(Array Int %s)", g.sc.sortOf(lf.ft)))
		dst, _ := g.sc.elemRef(et, rarr, "k!")
		src1, _ := g.sc.elemRef(et, sarr, fmt.Sprintf("(+ %s (- k! %s))", soff, roff))
		src2, _ := g.sc.elemRef(et, tarr, fmt.Sprintf("(+ %s (- k! (+ %s %s)))", toff, roff, slen))
		g.assume(fmt.Sprintf("(forall ((k! Int)) (! (=> (and (<= %s k!) (< k! (+ %s %s))) (= (select %s %s) (select %s %s))) :pattern (%s)))", roff, roff, slen, N, lf.wrap(dst), H, lf.wrap(src1), dst))
		g.assume(fmt.Sprintf("(forall ((k! Int)) (! (=> (and (<= (+ %s %s) k!) (< k! (+ %s %s %s))) (= (select %s %s) (select %s %s))) :pattern (%s)))", roff, slen, roff, slen, n, N, lf.wrap(dst), H, lf.wrap(src2), dst))
		// frame: objects that are not elements of the result array keep their value; in place, elements
		// outside the appended range do too
		g.assume(fmt.Sprintf("(forall ((r! Int)) (! (=> (not (= (rootref r!) %s)) (= (select %s r!) (select %s r!))) :pattern ((select %s r!))))", rarr, N, H, N))
		g.assume(fmt.Sprintf("(=> %s (forall ((k! Int)) (! (=> (or (< k! (+ %s %s)) (>= k! (+ %s %s %s))) (= (select %s %s) (select %s %s))) :pattern (%s))))", inplace, soff, slen, soff, slen, n, N, lf.wrap(dst), H, lf.wrap(dst), dst))
		g.update(lf.comp, N)
	}
	g.vals[v] = g.def("v:"+v.Name(), "Slice", fmt.Sprintf("(mk-slice %s %s (+ %s %s) %s)", rarr, roff, slen, n, newcap))
}
