package vc

// Static over-approximation of the state keys a piece of code may write.

import (
	"fmt"
	"go/types"

	"golang.org/x/tools/go/ssa"
)

// Effects returns the heap components (and "alloc") a function may modify, transitively.
func (env *Env) Effects(fn *ssa.Function) map[string]bool {
	if e, ok := env.effects[fn]; ok {
		return e
	}
	// cycle guard: provisional empty set, then iterate to a fixed point
	env.effects[fn] = map[string]bool{}
	for iter := 0; iter < 5; iter++ {
		e := map[string]bool{}
		sc := NewScript(env)
		for _, b := range fn.Blocks {
			for _, in := range b.Instrs {
				env.instrEffects(sc, fn, in, e, nil)
			}
		}
		for _, an := range fn.AnonFuncs {
			_ = an
		}
		same := len(e) == len(env.effects[fn])
		if same {
			for k := range e {
				if !env.effects[fn][k] {
					same = false
				}
			}
		}
		env.effects[fn] = e
		if same {
			break
		}
	}
	return env.effects[fn]
}

// loopEffects computes the modified set (cells and heap components) of a loop body.
func (g *FuncGen) loopEffects(l *loopInfo) {
	for _, b := range g.fn.Blocks {
		if !l.body[b.Index] {
			continue
		}
		for _, in := range b.Instrs {
			g.env.instrEffects(g.sc, g.fn, in, l.modified, g)
		}
	}
}

// cellRoot finds the local cell an address is derived from (through field/index chains).
func cellRoot(v ssa.Value) (*ssa.Alloc, bool) {
	for {
		switch x := v.(type) {
		case *ssa.Alloc:
			if !x.Heap {
				return x, true
			}
			return nil, false
		case *ssa.FieldAddr:
			v = x.X
		case *ssa.IndexAddr:
			if _, ok := x.X.Type().Underlying().(*types.Pointer); ok {
				v = x.X
			} else {
				return nil, false
			}
		default:
			return nil, false
		}
	}
}

func (env *Env) storeEffects(sc *Script, addr ssa.Value, e map[string]bool, g *FuncGen) {
	if a, ok := cellRoot(addr); ok {
		if g != nil {
			e[g.cellOf[a]] = true
		}
		return
	}
	if gl, ok := addr.(*ssa.Global); ok {
		et := deref(gl.Type())
		if _, isS := isStruct(et); isS {
			var comps []string
			sc.leafComps(et, map[string]bool{}, &comps)
			for _, c := range comps {
				e[c] = true
			}
			return
		}
		if g != nil {
			key := "G:" + gl.String()
			if _, ok := g.cellSort[key]; !ok {
				g.cellSort[key] = g.sc.sortOf(et)
				g.cellType[key] = et
			}
			e[key] = true
		}
		return
	}
	switch x := addr.(type) {
	case *ssa.FieldAddr:
		st := deref(x.X.Type())
		s, _ := isStruct(st)
		ft := s.Field(x.Field).Type()
		if _, ok := isStruct(ft); ok {
			var comps []string
			sc.leafComps(ft, map[string]bool{}, &comps)
			for _, c := range comps {
				e[c] = true
			}
		} else {
			e[sc.fieldCompReg(st, x.Field)] = true
		}
		return
	case *ssa.IndexAddr:
		var et types.Type
		switch t := x.X.Type().Underlying().(type) {
		case *types.Slice:
			et = t.Elem()
		case *types.Pointer:
			et = t.Elem().Underlying().(*types.Array).Elem()
		}
		env.typeStoreEffects(sc, et, e, true)
		return
	}
	pt := deref(addr.Type())
	if pt == nil {
		return
	}
	if at, ok := pt.Underlying().(*types.Array); ok {
		env.typeStoreEffects(sc, at.Elem(), e, true)
		return
	}
	env.typeStoreEffects(sc, pt, e, false)
}

func (env *Env) typeStoreEffects(sc *Script, t types.Type, e map[string]bool, elem bool) {
	if _, ok := isStruct(t); ok {
		var comps []string
		sc.leafComps(t, map[string]bool{}, &comps)
		for _, c := range comps {
			e[c] = true
		}
		return
	}
	if elem {
		e[sc.elemComp(t)] = true
	} else {
		e[sc.cellComp(t)] = true
	}
}

func (env *Env) instrEffects(sc *Script, fn *ssa.Function, in ssa.Instruction, e map[string]bool, g *FuncGen) {
	defer func() {
		if r := recover(); r != nil {
			if _, ok := r.(unsupported); ok {
				return // unsupported types are reported when the instruction is executed
			}
			panic(r)
		}
	}()
	switch x := in.(type) {
	case *ssa.Store:
		env.storeEffects(sc, x.Addr, e, g)
	case *ssa.Alloc:
		if x.Heap {
			e["alloc"] = true
		} else if g != nil {
			e[g.cellOf[x]] = true
		}
	case *ssa.MakeSlice, *ssa.MakeMap, *ssa.MakeChan, *ssa.MakeClosure:
		e["alloc"] = true
	case *ssa.Convert:
		if isString(x.X.Type()) != isString(x.Type()) {
			e["alloc"] = true
		}
	case *ssa.MapUpdate:
		mt := x.Map.Type().Underlying().(*types.Map)
		d, v := sc.mapComps(mt)
		e[d], e[v] = true, true
	case *ssa.Send:
		if g != nil && g.c != nil && g.c.Opts["count_sends"] != "" {
			key := "cell:ghost:sends"
			if _, ok := g.cellSort[key]; !ok {
				g.cellSort[key] = "Int"
				g.cellType[key] = types.Typ[types.Int]
			}
			e[key] = true
		}
	case *ssa.Call:
		env.callEffects(sc, fn, &x.Call, e, g)
	case *ssa.Defer:
		env.callEffects(sc, fn, &x.Call, e, g)
	case *ssa.Go:
		env.callEffects(sc, fn, &x.Call, e, g)
	case *ssa.Next:
		if g != nil && !x.IsString {
			if rng, ok := x.Iter.(*ssa.Range); ok {
				e[g.rangeVisitedKey(rng)] = true
			}
		}
	}
}

func (env *Env) callEffects(sc *Script, fn *ssa.Function, c *ssa.CallCommon, e map[string]bool, g *FuncGen) {
	if b, ok := c.Value.(*ssa.Builtin); ok {
		switch b.Name() {
		case "append":
			et := c.Args[0].Type().Underlying().(*types.Slice).Elem()
			env.typeStoreEffects(sc, et, e, true)
			e["alloc"] = true
		case "copy":
			et := c.Args[0].Type().Underlying().(*types.Slice).Elem()
			env.typeStoreEffects(sc, et, e, true)
		case "delete":
			mt := c.Args[0].Type().Underlying().(*types.Map)
			d, _ := sc.mapComps(mt)
			e[d] = true
		}
		return
	}
	sig := c.Signature()
	if sig.Results().Len() > 0 {
		e["alloc"] = true
	}
	if g != nil {
		for _, a := range c.Args {
			if al, ok := cellRoot(a); ok {
				if _, isAlloc := a.(*ssa.Alloc); isAlloc && al.Heap {
					continue
				}
				if pt := deref(a.Type()); pt != nil {
					if _, isArr := pt.Underlying().(*types.Array); isArr {
						continue
					}
					e[g.cellOf[al]] = true
					e["alloc"] = true
					env.typeStoreEffects(sc, pt, e, false)
				}
				continue
			}
			switch a.(type) {
			case *ssa.FieldAddr, *ssa.IndexAddr:
				if pt := deref(a.Type()); pt != nil {
					if _, isS := isStruct(pt); !isS {
						if _, isArr := pt.Underlying().(*types.Array); !isArr {
							// copy-in / copy-out of a scalar field or slice element passed by address
							env.storeEffects(sc, a, e, g)
							env.typeStoreEffects(sc, pt, e, false)
							e["alloc"] = true
						}
					}
				}
			}
		}
	}
	if c.IsInvoke() {
		ct, sf := env.lookupIfaceContract(c.Method, c.Value.Type())
		if ct != nil {
			env.contractEffects(sc, ct, sf, nil, e)
			return
		}
		if !pureLibrary(c.Method.FullName()) {
			env.argEffects(sc, c.Args, e)
		}
		return
	}
	callee := c.StaticCallee()
	if callee == nil {
		if mc, ok := c.Value.(*ssa.MakeClosure); ok {
			callee = mc.Fn.(*ssa.Function)
		}
	}
	if callee == nil {
		return
	}
	ct, sf := env.lookupContractFrom(callee, fnPkgPath(fn))
	if ct != nil {
		if len(callee.Blocks) > 0 && !ct.Extern && !ct.Trusted {
			for k := range env.Effects(callee) {
				e[k] = true
			}
		}
		env.contractEffects(sc, ct, sf, callee, e)
		return
	}
	if env.inModule(fnPkgPath(callee)) && len(callee.Blocks) > 0 {
		for k := range env.Effects(callee) {
			e[k] = true
		}
		return
	}
	if !pureLibrary(callee.String()) {
		env.argEffects(sc, c.Args, e)
	}
}

func (env *Env) argEffects(sc *Script, args []ssa.Value, e map[string]bool) {
	for _, a := range args {
		if mi, ok := a.(*ssa.MakeInterface); ok {
			a = mi.X
		}
		switch x := a.(type) {
		case *ssa.FieldAddr, *ssa.IndexAddr:
			env.storeEffects(sc, x, e, nil)
			continue
		}
		switch t := a.Type().Underlying().(type) {
		case *types.Slice:
			if _, ok := isStruct(t.Elem()); !ok {
				e[sc.elemComp(t.Elem())] = true
			}
		case *types.Pointer:
			et := t.Elem()
			if _, ok := isStruct(et); ok {
				if named, ok := et.(*types.Named); ok && named.Obj().Pkg() != nil && !env.inModule(named.Obj().Pkg().Path()) {
					continue
				}
				var comps []string
				sc.leafComps(et, map[string]bool{}, &comps)
				for _, c := range comps {
					e[c] = true
				}
			} else if _, ok := et.Underlying().(*types.Array); !ok {
				e[sc.cellComp(et)] = true
			}
		}
	}
}

// contractEffects adds the components named by a contract's modifies clauses (by static typing).
func (env *Env) contractEffects(sc *Script, ct *Contract, sf *SpecFile, callee *ssa.Function, e map[string]bool) {
	if !ct.Pure {
		e["alloc"] = true
	}
	if len(ct.Modifies) == 0 {
		return
	}
	key := fmt.Sprintf("%s|%s", sf.PkgPath, ct.Key)
	if comps, ok := env.modComps[key]; ok {
		for _, c := range comps {
			e[c] = true
		}
		return
	}
	// Evaluate the modifies clauses in a scratch generator to learn their components.
	comps := env.modifiesComps(ct, sf, callee)
	env.modComps[key] = comps
	for _, c := range comps {
		e[c] = true
	}
}
