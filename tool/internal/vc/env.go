package vc

import (
	"encoding/json"
	"fmt"
	"go/token"
	"go/types"
	"os"
	"path/filepath"
	"sort"
	"strings"

	"golang.org/x/tools/go/packages"
	"golang.org/x/tools/go/ssa"
	"golang.org/x/tools/go/ssa/ssautil"
)

// FuncBinding records the parameter and local variable names of a function as they were when its contract was written.
type FuncBinding struct {
	Params []string
	Locals []string
}

type Env struct {
	KeepGen  bool // keep each function's generator in its result (replay)
	Concrete bool // generate concrete-mode conditions (replay: no execution, unconstrained post state)
	Bindings map[string]*FuncBinding
	Repo    string
	Module  string
	Fset    *token.FileSet
	Prog    *ssa.Program
	Pkgs    []*packages.Package
	byPath  map[string]*packages.Package
	allPkgs []*types.Package
	SSA     map[string]*ssa.Package
	Specs   map[string]*SpecFile // by package path
	SpecSrc map[string]string    // package path -> file used

	comps    map[string]compInfo
	effects  map[*ssa.Function]map[string]bool
	modComps map[string][]string
	funcs    map[string]*ssa.Function // "pkgpath|key" -> function
}

// Load loads all packages of the repository with the verif build tag and builds SSA.
func Load(repo string, mirror string) (*Env, error) {
	env := &Env{Repo: repo, byPath: map[string]*packages.Package{}, SSA: map[string]*ssa.Package{}, Specs: map[string]*SpecFile{},
		SpecSrc: map[string]string{}, comps: map[string]compInfo{}, effects: map[*ssa.Function]map[string]bool{}, modComps: map[string][]string{},
		funcs: map[string]*ssa.Function{}}
	cfg := &packages.Config{Mode: packages.LoadAllSyntax, Dir: repo, BuildFlags: []string{"-tags=verif"},
		Env: append(os.Environ(), "GOFLAGS=-mod=mod", "GOPROXY=off", "GOSUMDB=off", "GOTOOLCHAIN=local")}
	pkgs, err := packages.Load(cfg, "./...")
	if err != nil {
		return nil, err
	}
	nerr := 0
	packages.Visit(pkgs, nil, func(p *packages.Package) {
		for _, e := range p.Errors {
			if nerr < 10 {
				fmt.Fprintln(os.Stderr, "load error:", e)
			}
			nerr++
		}
	})
	if nerr > 0 {
		return nil, fmt.Errorf("%d package load errors", nerr)
	}
	env.Pkgs = pkgs
	if len(pkgs) > 0 && pkgs[0].Module != nil {
		env.Module = pkgs[0].Module.Path
	} else {
		env.Module = "github.com/usnistgov/dastard"
	}
	prog, _ := ssautil.AllPackages(pkgs, ssa.NaiveForm|ssa.GlobalDebug)
	prog.Build()
	env.Prog = prog
	env.Fset = prog.Fset
	packages.Visit(pkgs, nil, func(p *packages.Package) {
		env.byPath[p.PkgPath] = p
		env.allPkgs = append(env.allPkgs, p.Types)
		if sp := prog.Package(p.Types); sp != nil {
			env.SSA[p.PkgPath] = sp
		}
	})
	// contracts: verif_contracts*.go in each module package directory; fall back to the mirror
	for _, p := range pkgs {
		if !env.inModule(p.PkgPath) {
			continue
		}
		dir := ""
		if len(p.GoFiles) > 0 {
			dir = filepath.Dir(p.GoFiles[0])
		}
		files, _ := filepath.Glob(filepath.Join(dir, "verif_contracts*.go"))
		src := "repo"
		if len(files) == 0 && mirror != "" {
			rel := strings.TrimPrefix(strings.TrimPrefix(p.PkgPath, env.Module), "/")
			files, _ = filepath.Glob(filepath.Join(mirror, rel, "verif_contracts*.go"))
			src = "mirror"
		}
		if len(files) == 0 {
			continue
		}
		sort.Strings(files)
		sf := NewSpecFile(p.PkgPath)
		for _, f := range files {
			b, err := os.ReadFile(f)
			if err != nil {
				return nil, err
			}
			if err := sf.ParseSpecText(f, string(b)); err != nil {
				return nil, err
			}
		}
		env.Specs[p.PkgPath] = sf
		env.SpecSrc[p.PkgPath] = src + ":" + strings.Join(files, ",")
	}
	// recorded variable names of the functions under contract (for rename-robust attachment)
	env.Bindings = map[string]*FuncBinding{}
	if mirror != "" {
		if b, err := os.ReadFile(filepath.Join(mirror, "bindings.json")); err == nil {
			json.Unmarshal(b, &env.Bindings)
		}
	}
	// common trusted library contracts
	if mirror != "" {
		files, _ := filepath.Glob(filepath.Join(mirror, "_common", "*.go"))
		sort.Strings(files)
		if len(files) > 0 {
			sf := NewSpecFile("_common")
			for _, f := range files {
				b, err := os.ReadFile(f)
				if err != nil {
					return nil, err
				}
				if err := sf.ParseSpecText(f, string(b)); err != nil {
					return nil, err
				}
			}
			env.Specs["_common"] = sf
			env.SpecSrc["_common"] = "verif:" + strings.Join(files, ",")
		}
	}
	// index functions
	for path, sp := range env.SSA {
		if !env.inModule(path) {
			continue
		}
		for _, m := range sp.Members {
			switch x := m.(type) {
			case *ssa.Function:
				env.indexFunc(path, x)
			case *ssa.Type:
				for _, t := range []types.Type{x.Type(), types.NewPointer(x.Type())} {
					ms := prog.MethodSets.MethodSet(t)
					for i := 0; i < ms.Len(); i++ {
						if f := prog.MethodValue(ms.At(i)); f != nil && f.Pkg == sp && f.Synthetic == "" {
							env.indexFunc(path, f)
						}
					}
				}
			}
		}
	}
	return env, nil
}

func (env *Env) indexFunc(path string, f *ssa.Function) {
	k := path + "|" + calleeKey(f)
	if _, ok := env.funcs[k]; ok {
		return
	}
	env.funcs[k] = f
	for _, an := range f.AnonFuncs {
		env.indexAnon(path, an)
	}
}

func (env *Env) indexAnon(path string, f *ssa.Function) {
	env.funcs[path+"|"+anonKey(f)] = f
	for _, an := range f.AnonFuncs {
		env.indexAnon(path, an)
	}
}

func anonKey(f *ssa.Function) string {
	// e.g. (*SourceControl).WriteComment$1
	root := f
	for root.Parent() != nil {
		root = root.Parent()
	}
	if root.Pkg != nil {
		return f.RelString(root.Pkg.Pkg)
	}
	return f.String()
}

func (env *Env) FindFunc(pkgPath, key string) *ssa.Function {
	return env.funcs[pkgPath+"|"+key]
}

// RecordBindings returns the parameter/local names of every module function that has a (non-extern) contract, keyed
// by "<package path>|<function key>".
func (env *Env) RecordBindings() map[string]*FuncBinding {
	out := map[string]*FuncBinding{}
	for k, fn := range env.funcs {
		if fn == nil || len(fn.Blocks) == 0 {
			continue
		}
		ct, _ := env.lookupContractFrom(fn, fnPkgPath(fn))
		if ct == nil || ct.Extern {
			continue
		}
		params, locals, _ := NamedLocals(fn)
		out[k] = &FuncBinding{Params: params, Locals: locals}
	}
	return out
}

func (env *Env) FuncKeys(pkgPath string) []string {
	var ks []string
	for k := range env.funcs {
		if strings.HasPrefix(k, pkgPath+"|") {
			ks = append(ks, strings.TrimPrefix(k, pkgPath+"|"))
		}
	}
	sort.Strings(ks)
	return ks
}

// modifiesComps determines the heap components named in a contract's modifies clauses.
func (env *Env) modifiesComps(ct *Contract, sf *SpecFile, callee *ssa.Function) (comps []string) {
	defer func() {
		if r := recover(); r != nil {
			if se, ok := r.(specErr); ok {
				panic(fmt.Sprintf("modifies clause of %s: %s", ct.Key, se.msg))
			}
			panic(r)
		}
	}()
	var names []string
	var ptypes []types.Type
	var pkg *types.Package
	if p, ok := env.byPath[sf.PkgPath]; ok {
		pkg = p.Types
	}
	var dummyFn *ssa.Function
	if callee != nil {
		if len(callee.Params) > 0 {
			for _, p := range callee.Params {
				names = append(names, p.Name())
				ptypes = append(ptypes, p.Type())
			}
		} else {
			names, ptypes = sigParamNames(callee.Signature)
		}
		if callee.Pkg != nil && !ct.Extern {
			pkg = callee.Pkg.Pkg
		}
		dummyFn = callee
	} else {
		// interface method: find it by key Iface.Method in the spec's package
		parts := strings.SplitN(ct.Key, ".", 2)
		if pkg != nil && len(parts) == 2 {
			if o := pkg.Scope().Lookup(parts[0]); o != nil {
				if it, ok := o.Type().Underlying().(*types.Interface); ok {
					for i := 0; i < it.NumMethods(); i++ {
						if it.Method(i).Name() == parts[1] {
							names = ifaceParamNames(it.Method(i))
							ptypes = paramTypes(o.Type(), it.Method(i).Type().(*types.Signature))
						}
					}
				}
			}
		}
	}
	g := &FuncGen{env: env, key: "modifies:" + ct.Key, sc: NewScript(env), vals: map[ssa.Value]string{},
		cellSort: map[string]string{}, cellType: map[string]types.Type{}, cellName: map[string][]*ssa.Alloc{},
		oblN: map[string]int{}, assumptions: map[string]bool{}, interior: map[string]bool{}, guard: "true", fn: dummyFn}
	st := &State{m: map[string]string{}}
	cx := &SpecCtx{g: g, st: st, old: st, vars: map[string]sval{}, pkg: pkg, spec: sf}
	for i, n := range names {
		cx.vars[n] = sval{t: fmt.Sprintf("|dummy:%s|", n), typ: ptypes[i], kind: "val"}
	}
	if callee != nil {
		// parameters renamed since the contract was written: bind the recorded names too
		if rec := env.Bindings[fnPkgPath(callee)+"|"+calleeKey(callee)]; rec != nil && len(rec.Params) == len(names) {
			for i, rp := range rec.Params {
				on := rp[:strings.Index(rp, "|")]
				if _, have := cx.vars[on]; !have && on != names[i] {
					cx.vars[on] = sval{t: fmt.Sprintf("|dummy:%s|", names[i]), typ: ptypes[i], kind: "val"}
				}
			}
		}
		for _, fv := range callee.FreeVars {
			cx.vars["&"+fv.Name()] = sval{t: fmt.Sprintf("|dummyfv:%s|", fv.Name()), typ: fv.Type(), kind: "val"}
		}
	}
	seen := map[string]bool{}
	for _, m := range ct.Modifies {
		for _, l := range cx.locations(m.E) {
			if !seen[l.comp] {
				seen[l.comp] = true
				comps = append(comps, l.comp)
			}
		}
	}
	return comps
}

// GenByKey generates the verification conditions of one function.
// A key may carry an aspect suffix ("F #name"): a second, independent contract for the same function F that verifies
// another aspect of it with its own loop invariants (smaller queries); callers always use F's main contract.
func (env *Env) GenByKey(pkgPath, key string) (*FuncResult, error) {
	base := key
	if i := strings.Index(key, " #"); i >= 0 {
		base = key[:i]
	}
	fn := env.FindFunc(pkgPath, base)
	if fn == nil {
		return nil, fmt.Errorf("function %s not found in %s", key, pkgPath)
	}
	var c *Contract
	sf := env.Specs[pkgPath]
	if sf != nil {
		c = sf.Contracts[key]
	}
	var res *FuncResult
	var err error
	func() {
		defer func() {
			if r := recover(); r != nil {
				if se, ok := r.(specErr); ok {
					err = fmt.Errorf("contract error in %s: %s", key, se.msg)
					return
				}
				// any other failure while generating the conditions of one function: the contract does not attach
				// to this version of the function (reported as such, never a crash of the whole check)
				err = fmt.Errorf("contract error in %s: cannot generate verification conditions: %v", key, r)
			}
		}()
		res = env.GenFunc(fn, key, c, sf)
	}()
	return res, err
}

// SummarizeModel extracts the interesting definitions (parameters, initial heap, results) from a solver model.
func SummarizeModel(model string, max int) string {
	var out []string
	depth := 0
	start := -1
	var forms []string
	for i := 0; i < len(model); i++ {
		switch model[i] {
		case '|':
			j := strings.IndexByte(model[i+1:], '|')
			if j >= 0 {
				i += j + 1
			}
		case '(':
			if depth == 1 && start < 0 {
				start = i
			}
			depth++
		case ')':
			depth--
			if depth == 1 && start >= 0 {
				forms = append(forms, model[start:i+1])
				start = -1
			}
		}
	}
	for _, f := range forms {
		if !strings.HasPrefix(f, "(define-fun ") {
			continue
		}
		rest := f[len("(define-fun "):]
		var name string
		if strings.HasPrefix(rest, "|") {
			k := strings.IndexByte(rest[1:], '|')
			name = rest[1 : k+1]
			rest = rest[k+2:]
		} else {
			k := strings.IndexAny(rest, " \n")
			name = rest[:k]
			rest = rest[k:]
		}
		keep := strings.HasPrefix(name, "p:") || strings.HasPrefix(name, "fv:") || strings.HasSuffix(name, "@0") || strings.HasPrefix(name, "res!") || strings.HasPrefix(name, "recv") || strings.HasPrefix(name, "sel")
		if !keep {
			continue
		}
		val := strings.Join(strings.Fields(rest), " ")
		val = strings.TrimSuffix(val, ")")
		if len(val) > 400 {
			val = val[:400] + "..."
		}
		out = append(out, name+" := "+val)
		if len(out) >= max {
			break
		}
	}
	sort.Strings(out)
	return strings.Join(out, "\n")
}

func (env *Env) FindLemma(name string) *Lemma { return env.findLemma(name) }

func (env *Env) findLemma(name string) *Lemma {
	for _, sf := range env.Specs {
		for _, l := range sf.Lemmas {
			if l.Name == name {
				return l
			}
		}
	}
	return nil
}

// GenLemma produces the proof obligation of a lemma (a closed formula over mathematical values).
func (env *Env) GenLemma(sf *SpecFile, lm *Lemma) (res *FuncResult, err error) {
	g := &FuncGen{env: env, key: "lemma:" + lm.Name, sc: NewScript(env), vals: map[ssa.Value]string{},
		cellSort: map[string]string{}, cellType: map[string]types.Type{}, cellName: map[string][]*ssa.Alloc{},
		oblN: map[string]int{}, assumptions: map[string]bool{}, interior: map[string]bool{}, guard: "true", props: lm.Props}
	g.sc.Lemma = true
	st := &State{m: map[string]string{}}
	var pkg *types.Package
	if p, ok := env.byPath[sf.PkgPath]; ok {
		pkg = p.Types
	}
	cx := &SpecCtx{g: g, st: st, old: st, vars: map[string]sval{}, pkg: pkg, spec: sf}
	defer func() {
		if r := recover(); r != nil {
			if se, ok := r.(specErr); ok {
				err = fmt.Errorf("lemma %s: %s", lm.Name, se.msg)
				return
			}
			panic(r)
		}
	}()
	// the definitions of opaque spec functions are available in lemma proofs
	for _, osf := range env.Specs {
		for _, dl := range osf.Lemmas {
			if dl.Definition {
				dcx := &SpecCtx{g: g, st: st, old: st, vars: map[string]sval{}, pkg: pkg, spec: osf}
				g.emit("(assert " + dcx.assumeTerm(dl.Body) + ")")
			}
		}
	}
	if lm.ByLean {
		src, lerr := leanTheorem(lm)
		if lerr != nil {
			return nil, fmt.Errorf("lemma %s: %v", lm.Name, lerr)
		}
		ob := g.oblig("lemma", lm.Name, "true", token.NoPos, lm.Props, lm.Src)
		ob.Lean = src
		return &FuncResult{Key: g.key, Prelude: g.sc.Prelude(), Items: g.items, Obls: g.obls}, nil
	}
	t := cx.boolTerm(lm.Body)
	g.oblig("lemma", lm.Name, t, token.NoPos, lm.Props, lm.Src)
	return &FuncResult{Key: g.key, Prelude: g.sc.Prelude(), Items: g.items, Obls: g.obls}, nil
}


// leanTheorem renders an integer-arithmetic lemma as a Lean 4 theorem proved by omega.
// Only forall over int variables, + - * / % by literals, comparisons, && || ==> ! and ite are accepted.
func leanTheorem(lm *Lemma) (string, error) {
	q, ok := lm.Body.(*EQuant)
	if !ok || !q.Forall {
		return "", fmt.Errorf("lean lemmas must be universally quantified")
	}
	var binds []string
	for _, v := range q.Vars {
		if v.Type != "int" && v.Type != "mathint" {
			return "", fmt.Errorf("lean lemma variable %s must be int", v.Name)
		}
		binds = append(binds, fmt.Sprintf("(%s : Int)", v.Name))
	}
	body, err := leanExpr(q.Body)
	if err != nil {
		return "", err
	}
	return fmt.Sprintf("theorem %s %s : %s := by\n  omega\n", lm.Name, strings.Join(binds, " "), body), nil
}

func leanExpr(e Expr) (string, error) {
	switch x := e.(type) {
	case *EInt:
		if x.Val.Sign() < 0 {
			return "(" + x.Val.String() + ")", nil
		}
		return x.Val.String(), nil
	case *EIdent:
		return x.Name, nil
	case *EBool:
		if x.Val {
			return "True", nil
		}
		return "False", nil
	case *EUnary:
		a, err := leanExpr(x.X)
		if err != nil {
			return "", err
		}
		if x.Op == "!" {
			return "(¬ " + a + ")", nil
		}
		if x.Op == "-" {
			return "(- " + a + ")", nil
		}
	case *EIte:
		c, e1 := leanExpr(x.C)
		a, e2 := leanExpr(x.A)
		b, e3 := leanExpr(x.B)
		if e1 != nil || e2 != nil || e3 != nil {
			return "", fmt.Errorf("bad ite")
		}
		return fmt.Sprintf("(if %s then %s else %s)", c, a, b), nil
	case *EBinary:
		a, e1 := leanExpr(x.X)
		b, e2 := leanExpr(x.Y)
		if e1 != nil {
			return "", e1
		}
		if e2 != nil {
			return "", e2
		}
		op := map[string]string{"&&": "∧", "||": "∨", "==>": "→", "<==>": "↔", "==": "=", "!=": "≠", "<": "<", "<=": "≤", ">": ">", ">=": "≥", "+": "+", "-": "-", "*": "*", "/": "/", "%": "%"}[x.Op]
		if op == "" {
			return "", fmt.Errorf("operator %s not supported in lean lemmas", x.Op)
		}
		if x.Op == "/" || x.Op == "%" {
			if lit, ok := x.Y.(*EInt); !ok || lit.Val.Sign() <= 0 {
				return "", fmt.Errorf("lean lemmas: divisor must be a positive literal")
			}
		}
		return "(" + a + " " + op + " " + b + ")", nil
	}
	return "", fmt.Errorf("expression %s not supported in lean lemmas", e)
}

type ContractTarget struct {
	Rel, Key string
	Props    []string
}

// ContractTargets lists the functions under (non-trusted) contract.
func (env *Env) ContractTargets() []ContractTarget {
	var pkgs []string
	for p := range env.Specs {
		pkgs = append(pkgs, p)
	}
	sort.Strings(pkgs)
	var out []ContractTarget
	for _, p := range pkgs {
		sf := env.Specs[p]
		for _, key := range sf.Order {
			c := sf.Contracts[key]
			if c.Extern || c.Trusted || strings.Contains(key, " #") {
				continue
			}
			rel := strings.TrimPrefix(strings.TrimPrefix(p, env.Module), "/")
			out = append(out, ContractTarget{Rel: rel, Key: key, Props: c.Props})
		}
	}
	return out
}
