package vc

// Mapping of Go types to SMT sorts, heap components, zero values and validity predicates.

import (
	"fmt"
	"go/types"
	"math/big"
	"sort"
	"strings"
)

// Script collects global declarations (sorts, datatypes, functions, constants).
type Script struct {
	decls    []string
	declared map[string]bool
	strs     map[string]string // string literal -> const name
	strOrder []string
	typeIDs  map[string]int
	typeOrd  []string
	counter  int
	Mode     string // "math" or "bv"
	Lemma    bool   // lemma proof: umod/udiv are the real operations
	Quant    int    // >0 while translating under a quantifier: axioms are emitted as global quantified axioms
	env      *Env
}

func NewScript(env *Env) *Script {
	s := &Script{declared: map[string]bool{}, strs: map[string]string{}, typeIDs: map[string]int{}, Mode: "math", env: env}
	s.decls = append(s.decls,
		"(declare-datatypes ((Slice 0)) (((mk-slice (s-arr Int) (s-off Int) (s-len Int) (s-cap Int)))))",
		"(declare-datatypes ((Iface 0)) (((mk-iface (i-typ Int) (i-val Int)))))",
		"(declare-sort Str 0)",
		"(declare-fun strlen (Str) Int)",
		"(declare-const str_empty Str)",
		"(assert (= (strlen str_empty) 0))",
		"(define-fun tdiv ((a Int) (b Int)) Int (ite (>= a 0) (ite (> b 0) (div a b) (- (div a (- b)))) (ite (> b 0) (- (div (- a) b)) (div (- a) (- b)))))",
		"(define-fun tmod ((a Int) (b Int)) Int (- a (* b (tdiv a b))))",
		"(define-fun imin ((a Int) (b Int)) Int (ite (<= a b) a b))",
		"(define-fun imax ((a Int) (b Int)) Int (ite (>= a b) a b))",
		"(define-fun rmin ((a Real) (b Real)) Real (ite (<= a b) a b))",
		"(define-fun rmax ((a Real) (b Real)) Real (ite (>= a b) a b))",
		"(define-fun iabs ((a Int)) Int (ite (>= a 0) a (- a)))",
		"(define-fun rtrunc ((a Real)) Int (ite (>= a 0.0) (to_int a) (- (to_int (- a)))))",
		"(declare-fun bitand (Int Int) Int)",
		"(declare-fun bitor (Int Int) Int)",
		"(declare-fun bitxor (Int Int) Int)",
		"(declare-fun shl (Int Int) Int)",
		"(declare-fun shr (Int Int) Int)",
		"(declare-fun rsqrt (Real) Real)",
		"(declare-fun sidx (Slice Int) Int)",
		"(declare-fun rootref (Int) Int)",
		"(assert (forall ((x! Int)) (! (=> (> x! 0) (= (rootref x!) x!)) :pattern ((rootref x!)))))",
		"(assert (= (rootref 0) 0))",
	)
	return s
}

// existedAt states that reference r denotes (part of) an object allocated before the allocation
// counter had value alloc: interior references are judged by the object they are part of.
func existedAt(r, alloc string) string {
	return fmt.Sprintf("(and (> (rootref %s) 0) (< (rootref %s) %s))", r, r, alloc)
}

// sliceIdx returns the backing-array index of element i of slice s as a term built with the
// uninterpreted symbol sidx (a robust quantifier trigger) together with its defining fact.
func (s *Script) sliceIdx(sl, i string) (term string, fact string) {
	term = fmt.Sprintf("(sidx %s %s)", sl, i)
	fact = fmt.Sprintf("(= %s (+ (s-off %s) %s))", term, sl, i)
	return
}

// divModDecls declares division/remainder by a non-constant divisor.  In function VCs they are
// uninterpreted (facts come from range axioms emitted per use and from proved lemma instances);
// in lemma proofs they are defined as the real operations.
func (s *Script) divModDecls() {
	if s.declared["umod"] {
		return
	}
	s.declared["umod"] = true
	if s.Lemma {
		s.decls = append(s.decls,
			"(define-fun umod ((a Int) (b Int)) Int (mod a b))",
			"(define-fun udiv ((a Int) (b Int)) Int (div a b))",
			"(define-fun utmod ((a Int) (b Int)) Int (tmod a b))",
			"(define-fun utdiv ((a Int) (b Int)) Int (tdiv a b))")
	} else {
		s.decls = append(s.decls,
			"(declare-fun umod (Int Int) Int)",
			"(declare-fun udiv (Int Int) Int)",
			"(declare-fun utmod (Int Int) Int)",
			"(declare-fun utdiv (Int Int) Int)")
	}
}

// divModFacts returns the basic range facts for a division/remainder by a variable divisor.
func divModFacts(a, b string) []string {
	return []string{
		fmt.Sprintf("(=> (> %s 0) (and (<= 0 (umod %s %s)) (< (umod %s %s) %s)))", b, a, b, a, b, b),
		fmt.Sprintf("(=> (and (>= %s 0) (> %s 0)) (<= (umod %s %s) %s))", a, b, a, b, a),
		fmt.Sprintf("(=> (and (>= %s 0) (> %s 0)) (and (<= 0 (udiv %s %s)) (<= (udiv %s %s) %s)))", a, b, a, b, a, b, a),
	}
}

func tdivModFacts(a, b string) []string {
	return []string{
		fmt.Sprintf("(=> (and (>= %s 0) (> %s 0)) (and (= (utmod %s %s) (umod %s %s)) (= (utdiv %s %s) (udiv %s %s))))", a, b, a, b, a, b, a, b, a, b),
		fmt.Sprintf("(=> (not (= %s 0)) (and (< (- (iabs %s)) (utmod %s %s)) (< (utmod %s %s) (iabs %s)) (<= (iabs (utdiv %s %s)) (iabs %s))))", b, b, a, b, a, b, b, a, b, a),
		fmt.Sprintf("(=> (and (>= %s 0) (not (= %s 0))) (>= (utmod %s %s) 0))", a, b, a, b),
		fmt.Sprintf("(=> (and (<= %s 0) (not (= %s 0))) (<= (utmod %s %s) 0))", a, b, a, b),
	}
}

func (s *Script) fresh(prefix string) string {
	s.counter++
	return fmt.Sprintf("%s!%d", prefix, s.counter)
}

func q(name string) string {
	if strings.ContainsAny(name, " ()|\\") {
		name = strings.NewReplacer(" ", "_", "(", "<", ")", ">", "|", "!", "\\", "!").Replace(name)
	}
	return "|" + name + "|"
}

func (s *Script) declare(name, decl string) {
	if s.declared[name] {
		return
	}
	s.declared[name] = true
	s.decls = append(s.decls, decl)
}

func (s *Script) declConst(name, sort string) string {
	s.declare(name, fmt.Sprintf("(declare-const %s %s)", name, sort))
	return name
}

// typeName returns a short stable name for a type.
func typeName(t types.Type) string {
	return types.TypeString(t, func(p *types.Package) string { return p.Name() })
}

func isStruct(t types.Type) (*types.Struct, bool) {
	st, ok := t.Underlying().(*types.Struct)
	return st, ok
}

func deref(t types.Type) types.Type {
	if p, ok := t.Underlying().(*types.Pointer); ok {
		return p.Elem()
	}
	return nil
}

type unsupported struct{ msg string }

func unsup(f string, a ...interface{}) { panic(unsupported{fmt.Sprintf(f, a...)}) }

// sortOf maps a Go type to its SMT sort (declaring datatypes as needed).
func (s *Script) sortOf(t types.Type) string {
	switch u := t.Underlying().(type) {
	case *types.Basic:
		switch {
		case u.Info()&types.IsBoolean != 0:
			return "Bool"
		case u.Info()&types.IsInteger != 0:
			return "Int"
		case u.Info()&types.IsFloat != 0:
			return "Real"
		case u.Info()&types.IsString != 0:
			return "Str"
		case u.Kind() == types.UnsafePointer:
			return "Int"
		case u.Kind() == types.UntypedNil:
			return "Int"
		}
		unsup("basic type %s", t)
	case *types.Pointer, *types.Map, *types.Chan, *types.Signature:
		return "Int"
	case *types.Slice:
		return "Slice"
	case *types.Interface:
		return "Iface"
	case *types.Array:
		return "(Array Int " + s.sortOf(u.Elem()) + ")"
	case *types.Struct:
		name := "S:" + typeName(t)
		if !s.declared[name] {
			// declare field sorts first
			var fields []string
			for i := 0; i < u.NumFields(); i++ {
				fields = append(fields, fmt.Sprintf("(%s %s)", s.fieldSel(t, i), s.sortOf(u.Field(i).Type())))
			}
			s.declare(name, fmt.Sprintf("(declare-datatypes ((%s 0)) (((%s %s))))", q(name), q("mk:"+typeName(t)), strings.Join(fields, " ")))
		}
		return q(name)
	case *types.Tuple:
		unsup("tuple sort")
	}
	unsup("type %s", t)
	return ""
}

func (s *Script) fieldSel(t types.Type, i int) string {
	st, _ := isStruct(t)
	return q("f:" + typeName(t) + "." + st.Field(i).Name())
}

func (s *Script) mkStruct(t types.Type, fields []string) string {
	s.sortOf(t)
	if len(fields) == 0 {
		return q("mk:" + typeName(t))
	}
	return "(" + q("mk:"+typeName(t)) + " " + strings.Join(fields, " ") + ")"
}

// intRange returns [lo,hi] for an integer basic type.
func intRange(b *types.Basic) (lo, hi *big.Int, bits int, signed bool) {
	one := big.NewInt(1)
	mk := func(bits int, signed bool) (*big.Int, *big.Int, int, bool) {
		if signed {
			h := new(big.Int).Lsh(one, uint(bits-1))
			return new(big.Int).Neg(h), new(big.Int).Sub(h, one), bits, true
		}
		h := new(big.Int).Lsh(one, uint(bits))
		return big.NewInt(0), new(big.Int).Sub(h, one), bits, false
	}
	switch b.Kind() {
	case types.Int8:
		return mk(8, true)
	case types.Int16:
		return mk(16, true)
	case types.Int32:
		return mk(32, true)
	case types.Int64, types.Int, types.UntypedInt, types.UntypedRune:
		return mk(64, true)
	case types.Uint8:
		return mk(8, false)
	case types.Uint16:
		return mk(16, false)
	case types.Uint32:
		return mk(32, false)
	case types.Uint64, types.Uint, types.Uintptr:
		return mk(64, false)
	}
	return nil, nil, 0, false
}

func isInt(t types.Type) (*types.Basic, bool) {
	b, ok := t.Underlying().(*types.Basic)
	if ok && b.Info()&types.IsInteger != 0 {
		return b, true
	}
	return nil, false
}
func isFloat(t types.Type) bool {
	b, ok := t.Underlying().(*types.Basic)
	return ok && b.Info()&types.IsFloat != 0
}
func isString(t types.Type) bool {
	b, ok := t.Underlying().(*types.Basic)
	return ok && b.Info()&types.IsString != 0
}
func isBool(t types.Type) bool {
	b, ok := t.Underlying().(*types.Basic)
	return ok && b.Info()&types.IsBoolean != 0
}

func smtInt(v *big.Int) string {
	if v.Sign() < 0 {
		return "(- " + new(big.Int).Neg(v).String() + ")"
	}
	return v.String()
}

func pow2(n int) string { return new(big.Int).Lsh(big.NewInt(1), uint(n)).String() }

// wrap reduces a mathematical integer to the range of type t (math mode).
// int and int64 are not wrapped (recorded assumption).
func (s *Script) wrap(t types.Type, x string) string {
	b, ok := isInt(t)
	if !ok {
		return x
	}
	_, _, bits, signed := intRange(b)
	if bits == 64 && signed {
		return x
	}
	if !signed {
		return fmt.Sprintf("(mod %s %s)", x, pow2(bits))
	}
	return fmt.Sprintf("(- (mod (+ %s %s) %s) %s)", x, pow2(bits-1), pow2(bits), pow2(bits-1))
}

// wrapExact is like wrap but also wraps 64-bit signed (used for conversions from uint64).
func (s *Script) wrapExact(t types.Type, x string) string {
	b, ok := isInt(t)
	if !ok {
		return x
	}
	_, _, bits, signed := intRange(b)
	if bits == 64 && signed {
		return fmt.Sprintf("(- (mod (+ %s %s) %s) %s)", x, pow2(63), pow2(64), pow2(63))
	}
	return s.wrap(t, x)
}

// zero returns the zero value term of a type.
func (s *Script) zero(t types.Type) string {
	switch u := t.Underlying().(type) {
	case *types.Basic:
		switch {
		case u.Info()&types.IsBoolean != 0:
			return "false"
		case u.Info()&types.IsInteger != 0:
			return "0"
		case u.Info()&types.IsFloat != 0:
			return "0.0"
		case u.Info()&types.IsString != 0:
			return "str_empty"
		default:
			return "0"
		}
	case *types.Pointer, *types.Map, *types.Chan, *types.Signature:
		return "0"
	case *types.Slice:
		return "(mk-slice 0 0 0 0)"
	case *types.Interface:
		return "(mk-iface 0 0)"
	case *types.Array:
		return fmt.Sprintf("((as const %s) %s)", s.sortOf(t), s.zero(u.Elem()))
	case *types.Struct:
		var fs []string
		for i := 0; i < u.NumFields(); i++ {
			fs = append(fs, s.zero(u.Field(i).Type()))
		}
		return s.mkStruct(t, fs)
	}
	unsup("zero of %s", t)
	return ""
}

// valid returns conjuncts stating that term x is a well-formed value of type t
// given the current allocation counter (math mode).
func (s *Script) valid(t types.Type, x string, alloc string, depth int) []string {
	var out []string
	switch u := t.Underlying().(type) {
	case *types.Basic:
		if b, ok := isInt(t); ok {
			lo, hi, _, _ := intRange(b)
			out = append(out, fmt.Sprintf("(<= %s %s)", smtInt(lo), x), fmt.Sprintf("(<= %s %s)", x, smtInt(hi)))
		}
		if isString(t) {
			out = append(out, fmt.Sprintf("(>= (strlen %s) 0)", x))
		}
	case *types.Pointer, *types.Map, *types.Chan:
		out = append(out, fmt.Sprintf("(< %s %s)", x, alloc))
		if _, isp := u.(*types.Pointer); !isp {
			out = append(out, fmt.Sprintf("(>= %s 0)", x))
		} else {
			// a non-nil pointer denotes (part of) an allocated object
			out = append(out, fmt.Sprintf("(=> (not (= %s 0)) (and (> (rootref %s) 0) (< (rootref %s) %s)))", x, x, x, alloc))
		}
	case *types.Slice:
		out = append(out,
			fmt.Sprintf("(< (s-arr %s) %s)", x, alloc),
			fmt.Sprintf("(>= (s-arr %s) 0)", x),
			fmt.Sprintf("(>= (s-off %s) 0)", x),
			fmt.Sprintf("(>= (s-len %s) 0)", x),
			fmt.Sprintf("(<= (s-len %s) (s-cap %s))", x, x),
			fmt.Sprintf("(=> (= (s-arr %s) 0) (and (= (s-cap %s) 0) (= (s-off %s) 0)))", x, x, x),
		)
	case *types.Interface:
		out = append(out, fmt.Sprintf("(>= (i-typ %s) 0)", x))
	case *types.Struct:
		if depth < 3 {
			for i := 0; i < u.NumFields(); i++ {
				out = append(out, s.valid(u.Field(i).Type(), fmt.Sprintf("(%s %s)", s.fieldSel(t, i), x), alloc, depth+1)...)
			}
		}
	}
	return out
}

// ---------- heap components ----------

// fieldComp returns the heap component name for a non-struct field of struct type t.
func (s *Script) fieldComp(t types.Type, i int) string {
	st, _ := isStruct(t)
	name := "H:" + typeName(t) + "." + st.Field(i).Name()
	return name
}

type compInfo struct {
	kind string // field cell elem mapdom mapval ghost
	t    types.Type
	kt   types.Type
}

func (s *Script) compSort(key string) string {
	ci, ok := s.env.comps[key]
	if !ok {
		panic("unknown heap component " + key)
	}
	switch ci.kind {
	case "ghostmap":
		return "(Array Int (Array Int Int))"
	case "ghostset":
		return "(Array Int (Array Int Bool))"
	case "ghoststr":
		return "(Array Int (Array Int Str))"
	case "ghostreal":
		return "(Array Int (Array Int Real))"
	case "field", "cell", "ghost":
		if ci.t == nil {
			return "(Array Int Int)"
		}
		return "(Array Int " + s.sortOf(ci.t) + ")"
	case "elem":
		return "(Array Int (Array Int " + s.sortOf(ci.t) + "))"
	case "mapdom":
		return "(Array Int (Array " + s.sortOf(ci.kt) + " Bool))"
	case "mapval":
		return "(Array Int (Array " + s.sortOf(ci.kt) + " " + s.sortOf(ci.t) + "))"
	}
	panic("bad comp kind")
}

func (s *Script) regComp(key string, ci compInfo) string {
	if _, ok := s.env.comps[key]; !ok {
		s.env.comps[key] = ci
	}
	return key
}

// fieldCompReg registers and returns the component key for field i of struct t.
func (s *Script) fieldCompReg(t types.Type, i int) string {
	st, _ := isStruct(t)
	return s.regComp(s.fieldComp(t, i), compInfo{kind: "field", t: st.Field(i).Type()})
}

func (s *Script) cellComp(t types.Type) string {
	return s.regComp("Cell:"+typeName(t), compInfo{kind: "cell", t: t})
}

func (s *Script) elemComp(t types.Type) string {
	return s.regComp("E:"+typeName(t), compInfo{kind: "elem", t: t})
}

func (s *Script) mapComps(m *types.Map) (dom, val string) {
	k := typeName(m.Key()) + "," + typeName(m.Elem())
	dom = s.regComp("MD:"+k, compInfo{kind: "mapdom", t: m.Elem(), kt: m.Key()})
	val = s.regComp("MV:"+k, compInfo{kind: "mapval", t: m.Elem(), kt: m.Key()})
	return
}

func (env *Env) regGhostComp(key string, t types.Type, special string) {
	if _, ok := env.comps[key]; !ok {
		if special == "intmap" {
			env.comps[key] = compInfo{kind: "ghostmap"}
		} else if special == "intset" {
			env.comps[key] = compInfo{kind: "ghostset"}
		} else if special == "strmap" {
			env.comps[key] = compInfo{kind: "ghoststr"}
		} else if special == "realmap" {
			env.comps[key] = compInfo{kind: "ghostreal"}
		} else {
			env.comps[key] = compInfo{kind: "ghost", t: t}
		}
	}
}

// fldFun returns the name of the interior-address function for struct-typed field i of t.
func (s *Script) fldFun(t types.Type, i int) string {
	st, _ := isStruct(t)
	name := q("fld:" + typeName(t) + "." + st.Field(i).Name())
	s.declare(name, fmt.Sprintf("(declare-fun %s (Int) Int)", name))
	inv := q("fldinv:" + typeName(t) + "." + st.Field(i).Name())
	s.declare(inv, fmt.Sprintf("(declare-fun %s (Int) Int)", inv))
	s.declare("tagfun", "(declare-fun reftag (Int) Int)")
	return name
}

// fldRef builds the interior reference term and returns it together with its axioms instance.
func (s *Script) fldRef(t types.Type, i int, ref string) (term string, axioms []string) {
	st, _ := isStruct(t)
	f := s.fldFun(t, i)
	inv := q("fldinv:" + typeName(t) + "." + st.Field(i).Name())
	term = fmt.Sprintf("(%s %s)", f, ref)
	id := s.typeID("fld:" + typeName(t) + "." + st.Field(i).Name())
	if s.Quant > 0 {
		s.declare("ax:"+f, fmt.Sprintf("(assert (forall ((x! Int)) (! (and (= (%s (%s x!)) x!) (< (%s x!) 0) (= (reftag (%s x!)) %d) (= (rootref (%s x!)) (rootref x!))) :pattern ((%s x!)))))", inv, f, f, f, id, f, f))
		return term, nil
	}
	axioms = []string{
		fmt.Sprintf("(= (rootref %s) (rootref %s))", term, ref),
		fmt.Sprintf("(= (%s %s) %s)", inv, term, ref),
		fmt.Sprintf("(< %s 0)", term),
		fmt.Sprintf("(= (reftag %s) %d)", term, id),
	}
	return
}

func (s *Script) elemRef(t types.Type, arr, idx string) (term string, axioms []string) {
	name := q("elem:" + typeName(t))
	s.declare(name, fmt.Sprintf("(declare-fun %s (Int Int) Int)", name))
	ia := q("elemarr:" + typeName(t))
	ii := q("elemidx:" + typeName(t))
	s.declare(ia, fmt.Sprintf("(declare-fun %s (Int) Int)", ia))
	s.declare(ii, fmt.Sprintf("(declare-fun %s (Int) Int)", ii))
	s.declare("tagfun", "(declare-fun reftag (Int) Int)")
	term = fmt.Sprintf("(%s %s %s)", name, arr, idx)
	id := s.typeID("elem:" + typeName(t))
	if s.Quant > 0 {
		s.declare("ax:"+name, fmt.Sprintf("(assert (forall ((a! Int) (i! Int)) (! (and (= (%s (%s a! i!)) a!) (= (%s (%s a! i!)) i!) (< (%s a! i!) 0) (= (reftag (%s a! i!)) %d) (= (rootref (%s a! i!)) a!)) :pattern ((%s a! i!)))))", ia, name, ii, name, name, name, id, name, name))
		return term, nil
	}
	axioms = []string{
		fmt.Sprintf("(= (rootref %s) %s)", term, arr),
		fmt.Sprintf("(= (%s %s) %s)", ia, term, arr),
		fmt.Sprintf("(= (%s %s) %s)", ii, term, idx),
		fmt.Sprintf("(< %s 0)", term),
		fmt.Sprintf("(= (reftag %s) %d)", term, id),
	}
	return
}

func (s *Script) typeID(name string) int {
	if id, ok := s.typeIDs[name]; ok {
		return id
	}
	id := len(s.typeIDs) + 1
	s.typeIDs[name] = id
	s.typeOrd = append(s.typeOrd, name)
	return id
}

func (s *Script) strConst(v string) string {
	if v == "" {
		return "str_empty"
	}
	if n, ok := s.strs[v]; ok {
		return n
	}
	n := fmt.Sprintf("str!%d", len(s.strs))
	s.strs[v] = n
	s.strOrder = append(s.strOrder, v)
	return n
}

// Prelude renders all declarations.
func (s *Script) Prelude() string {
	var b strings.Builder
	for _, d := range s.decls {
		b.WriteString(d)
		b.WriteString("\n")
	}
	if len(s.strOrder) > 0 {
		names := []string{"str_empty"}
		for _, v := range s.strOrder {
			n := s.strs[v]
			fmt.Fprintf(&b, "(declare-const %s Str)\n(assert (= (strlen %s) %d))\n", n, n, len(v))
			names = append(names, n)
		}
		fmt.Fprintf(&b, "(assert (distinct %s))\n", strings.Join(names, " "))
	}
	return b.String()
}

// leafComps enumerates the heap components holding the (non-struct) leaves of a struct type.
func (s *Script) leafComps(t types.Type, seen map[string]bool, out *[]string) {
	st, ok := isStruct(t)
	if !ok {
		return
	}
	for i := 0; i < st.NumFields(); i++ {
		ft := st.Field(i).Type()
		if _, ok := isStruct(ft); ok {
			s.leafComps(ft, seen, out)
		} else {
			k := s.fieldCompReg(t, i)
			if !seen[k] {
				seen[k] = true
				*out = append(*out, k)
			}
		}
	}
}

func sortedKeys(m map[string]bool) []string {
	var ks []string
	for k := range m {
		ks = append(ks, k)
	}
	sort.Strings(ks)
	return ks
}


// mapLen returns the cardinality term of a map domain (an (Array K Bool)) and its basic axioms.
func (s *Script) mapLen(ksort, dom string) (term string, facts []string) {
	fn := q("maplen:" + ksort)
	wit := q("mapwit:" + ksort)
	s.declare(fn, fmt.Sprintf("(declare-fun %s ((Array %s Bool)) Int)", fn, ksort))
	s.declare(wit, fmt.Sprintf("(declare-fun %s ((Array %s Bool)) %s)", wit, ksort, ksort))
	term = fmt.Sprintf("(%s %s)", fn, dom)
	facts = []string{
		fmt.Sprintf("(>= %s 0)", term),
		fmt.Sprintf("(=> (> %s 0) (select %s (%s %s)))", term, dom, wit, dom),
		fmt.Sprintf("(forall ((mk! %s)) (! (=> (select %s mk!) (> %s 0)) :pattern ((select %s mk!))))", ksort, dom, term, dom),
	}
	return
}

// mapLenStore relates the cardinalities of a domain before and after setting key k to present/absent.
func (s *Script) mapLenStore(ksort, oldDom, newDom, k string, present bool) []string {
	fn := q("maplen:" + ksort)
	wit := q("mapwit:" + ksort)
	s.declare(fn, fmt.Sprintf("(declare-fun %s ((Array %s Bool)) Int)", fn, ksort))
	s.declare(wit, fmt.Sprintf("(declare-fun %s ((Array %s Bool)) %s)", wit, ksort, ksort))
	if present {
		return []string{fmt.Sprintf("(= (%s %s) (+ (%s %s) (ite (select %s %s) 0 1)))", fn, newDom, fn, oldDom, oldDom, k), fmt.Sprintf("(>= (%s %s) 0)", fn, oldDom)}
	}
	return []string{fmt.Sprintf("(= (%s %s) (- (%s %s) (ite (select %s %s) 1 0)))", fn, newDom, fn, oldDom, oldDom, k), fmt.Sprintf("(>= (%s %s) 0)", fn, newDom)}
}
