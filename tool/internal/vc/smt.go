package vc

import (
	"bytes"
	"context"
	"crypto/sha256"
	"encoding/hex"
	"encoding/json"
	"fmt"
	"os"
	"os/exec"
	"path/filepath"
	"strings"
	"sync"
	"time"
)

type ObResult struct {
	Ob      *Obligation `json:"-"`
	Name    string      `json:"name"`
	Kind    string      `json:"kind"`
	Verdict string      `json:"verdict"` // proved failed undecided cover-ok cover-vacuous
	Solver  string      `json:"solver"`
	Seconds float64     `json:"seconds"`
	Model   string      `json:"model,omitempty"`
	Output  string      `json:"output,omitempty"`
	Bytes   int         `json:"bytes"`
	Cached  bool        `json:"cached,omitempty"`
	Script  string      `json:"-"`
}

type SolverCfg struct {
	QuickTimeout int // seconds, first stage (z3-new only)
	LongTimeout  int // seconds, second stage (all solvers raced)
	Workers      int
	CacheDir     string
	Seed         int
	KeepDir      string // write failing scripts here
}

func BuildQuery(fr *FuncResult, ob *Obligation) string {
	var b strings.Builder
	b.WriteString(fr.Prelude)
	for _, it := range fr.Items[:ob.NItems] {
		b.WriteString(it.Text)
		b.WriteString("\n")
	}
	if ob.Cover {
		fmt.Fprintf(&b, "(assert %s)\n", ob.Guard)
	} else {
		fmt.Fprintf(&b, "(assert (and %s (not %s)))\n", ob.Guard, ob.Expr)
	}
	b.WriteString("(check-sat)\n")
	return b.String()
}

type solverSpec struct {
	name string
	args func(timeout int, file string) []string
	pre  string
}

var solvers = map[string]solverSpec{
	"z3-new": {"z3-new", func(t int, f string) []string { return []string{fmt.Sprintf("-T:%d", t), f} }, "(set-option :produce-models true)\n"},
	"z3-new-as2": {"z3-new", func(t int, f string) []string { return []string{fmt.Sprintf("-T:%d", t), "smt.arith.solver=2", f} }, "(set-option :produce-models true)\n"},
	"z3":     {"z3", func(t int, f string) []string { return []string{fmt.Sprintf("-T:%d", t), f} }, "(set-option :produce-models true)\n"},
	"cvc5":   {"cvc5", func(t int, f string) []string { return []string{fmt.Sprintf("--tlimit=%d", t*1000), f} }, "(set-option :produce-models true)\n(set-logic ALL)\n"},
}

func runSolver(ctx context.Context, name string, script string, timeout int, seed int, wantModel bool) (verdict string, out string, secs float64) {
	sp := solvers[name]
	f, err := os.CreateTemp("", "dvc-*.smt2")
	if err != nil {
		return "error", err.Error(), 0
	}
	defer os.Remove(f.Name())
	text := sp.pre
	if seed != 0 && strings.HasPrefix(name, "z3") {
		text += fmt.Sprintf("(set-option :smt.random_seed %d)\n(set-option :sat.random_seed %d)\n", seed, seed)
	}
	text += script
	if wantModel {
		text += "(get-model)\n"
	}
	f.WriteString(text)
	f.Close()
	cctx, cancel := context.WithTimeout(ctx, time.Duration(timeout+5)*time.Second)
	defer cancel()
	cmd := exec.CommandContext(cctx, sp.name, sp.args(timeout, f.Name())...)
	var buf bytes.Buffer
	cmd.Stdout = &buf
	cmd.Stderr = &buf
	t0 := time.Now()
	cmd.Run()
	secs = time.Since(t0).Seconds()
	out = buf.String()
	first := strings.TrimSpace(strings.SplitN(out, "\n", 2)[0])
	switch first {
	case "unsat":
		return "unsat", out, secs
	case "sat":
		return "sat", out, secs
	case "unknown", "timeout":
		return "unknown", out, secs
	}
	if ctx.Err() != nil {
		return "cancelled", out, secs
	}
	if strings.Contains(out, "error") {
		return "error", out, secs
	}
	return "unknown", out, secs
}

func decideLean(ob *Obligation, cfg *SolverCfg) *ObResult {
	res := &ObResult{Ob: ob, Name: ob.Name, Kind: ob.Kind, Bytes: len(ob.Lean), Script: ob.Lean, Solver: "lean"}
	dir, err := os.MkdirTemp("", "dvc-lean-")
	if err != nil {
		res.Verdict, res.Output = "undecided", err.Error()
		return res
	}
	defer os.RemoveAll(dir)
	f := filepath.Join(dir, "L.lean")
	os.WriteFile(f, []byte(ob.Lean), 0o644)
	ctx, cancel := context.WithTimeout(context.Background(), time.Duration(cfg.LongTimeout+60)*time.Second)
	defer cancel()
	cmd := exec.CommandContext(ctx, "lean", f)
	var buf bytes.Buffer
	cmd.Stdout, cmd.Stderr = &buf, &buf
	t0 := time.Now()
	err = cmd.Run()
	res.Seconds = time.Since(t0).Seconds()
	out := buf.String()
	if err == nil && !strings.Contains(out, "error") && !strings.Contains(out, "sorry") {
		res.Verdict = "proved"
	} else {
		res.Verdict, res.Output = "undecided", out
	}
	return res
}

func decide(ob *Obligation, script string, cfg *SolverCfg) *ObResult {
	if ob.Lean != "" {
		return decideLean(ob, cfg)
	}
	res := &ObResult{Ob: ob, Name: ob.Name, Kind: ob.Kind, Bytes: len(script), Script: script}
	h := sha256.Sum256([]byte(script))
	key := hex.EncodeToString(h[:16])
	if cfg.CacheDir != "" {
		if b, err := os.ReadFile(filepath.Join(cfg.CacheDir, key+".json")); err == nil {
			var c ObResult
			if json.Unmarshal(b, &c) == nil && c.Verdict != "" {
				c.Ob, c.Name, c.Kind, c.Script, c.Cached = ob, ob.Name, ob.Kind, script, true
				return &c
			}
		}
	}
	finish := func(v, solver, out string, secs float64) *ObResult {
		res.Solver, res.Seconds = solver, res.Seconds+secs
		switch {
		case ob.Cover && v == "unsat":
			res.Verdict = "cover-vacuous"
		case ob.Cover:
			res.Verdict = "cover-ok"
		case v == "unsat":
			res.Verdict = "proved"
		case v == "sat":
			res.Verdict = "failed"
			base := solver
			if i := strings.Index(base, "@"); i >= 0 {
				base = base[:i]
			}
			_, mout, _ := runSolver(context.Background(), base, script, cfg.LongTimeout, cfg.Seed, true)
			res.Model = mout
		default:
			res.Verdict = "undecided"
			res.Output = out
		}
		if cfg.CacheDir != "" && (res.Verdict == "proved" || res.Verdict == "cover-ok") {
			os.MkdirAll(cfg.CacheDir, 0o755)
			b, _ := json.Marshal(res)
			os.WriteFile(filepath.Join(cfg.CacheDir, key+".json"), b, 0o644)
		}
		return res
	}
	// stage 1: z3-new and cvc5 side by side (each is the only prover of a sizeable class of obligations); the first
	// definite answer wins
	type r1 struct {
		v, solver, out string
		secs           float64
	}
	ctx1, cancel1 := context.WithCancel(context.Background())
	ch1 := make(chan r1, 2)
	stage1 := []string{"z3-new", "cvc5", "z3-new-as2"}
	ch1 = make(chan r1, len(stage1))
	for _, sv := range stage1 {
		go func(sv string) {
			v, o, s := runSolver(ctx1, sv, script, cfg.QuickTimeout, cfg.Seed, false)
			ch1 <- r1{v, sv, o, s}
		}(sv)
	}
	var v, out string
	var secs float64
	for k := 0; k < len(stage1); k++ {
		x := <-ch1
		if x.v == "unsat" || x.v == "sat" {
			cancel1()
			return finish(x.v, x.solver, x.out, x.secs)
		}
		if x.solver == "z3-new" {
			v, out = x.v, x.out
		}
		if x.secs > secs {
			secs = x.secs
		}
	}
	cancel1()
	_ = v
	if ob.Cover {
		// unknown is acceptable for a cover (not shown vacuous)
		return finish("unknown", "z3-new", out, secs)
	}
	res.Seconds += secs
	outs := "z3-new: " + strings.TrimSpace(firstLines(out, 3))
	// stage 2: race
	ctx, cancel := context.WithCancel(context.Background())
	defer cancel()
	type r struct {
		v, solver, out string
		secs           float64
	}
	ch := make(chan r, 4)
	// a proof found under any solver/seed is a proof; several seeds make the verdict independent of the
	// seed the caller happens to export (VERIF_SEED only shifts which seeds are tried)
	type variant struct {
		label, solver string
		seed          int
	}
	names := []variant{{"z3-new-as2", "z3-new-as2", cfg.Seed + 1}, {"z3", "z3", cfg.Seed + 1}, {"cvc5", "cvc5", cfg.Seed + 1}, {"z3-new", "z3-new", cfg.Seed + 1},
		{"z3-new@seed0", "z3-new", 0}, {"z3-new@alt", "z3-new", cfg.Seed + 7919}}
	if cfg.Seed == 0 {
		names = names[:4]
		names = append(names, variant{"z3-new@alt", "z3-new", 7919})
	}
	ch = make(chan r, len(names))
	for _, n := range names {
		go func(n variant) {
			v, o, s := runSolver(ctx, n.solver, script, cfg.LongTimeout, n.seed, false)
			ch <- r{v, n.label, o, s}
		}(n)
	}
	var maxSecs float64
	for range names {
		x := <-ch
		if x.secs > maxSecs {
			maxSecs = x.secs
		}
		if x.v == "unsat" || x.v == "sat" {
			cancel()
			return finish(x.v, x.solver, x.out, x.secs)
		}
		outs += "\n" + x.solver + ": " + strings.TrimSpace(firstLines(x.out, 3))
	}
	return finish("unknown", "all", outs, maxSecs)
}

func firstLines(s string, n int) string {
	ls := strings.Split(s, "\n")
	if len(ls) > n {
		ls = ls[:n]
	}
	return strings.Join(ls, "\n")
}

// Retry re-runs the given undecided obligations once more, a few at a time and with a longer time limit (the machine is
// no longer busy with the rest of the check).  A timeout under load must not turn into an alarm; a real violation stays
// undecided (or is refuted) and is reported after the retry.
func Retry(results []*ObResult, cfg *SolverCfg, longTimeout int, maxRetry int) int {
	var idx []int
	for i, r := range results {
		if r != nil && r.Verdict == "undecided" && r.Script != "" && r.Ob != nil {
			idx = append(idx, i)
		}
	}
	if len(idx) == 0 || len(idx) > maxRetry {
		return 0
	}
	c2 := *cfg
	c2.LongTimeout = longTimeout
	c2.QuickTimeout = 30
	var wg sync.WaitGroup
	sem := make(chan struct{}, 3)
	for _, i := range idx {
		wg.Add(1)
		sem <- struct{}{}
		go func(i int) {
			defer wg.Done()
			defer func() { <-sem }()
			first := results[i]
			r := decide(first.Ob, first.Script, &c2)
			r.Seconds += first.Seconds
			results[i] = r
		}(i)
	}
	wg.Wait()
	return len(idx)
}

// Discharge runs all obligations of the given function results in parallel.
func Discharge(frs []*FuncResult, cfg *SolverCfg) []*ObResult {
	type job struct {
		fr *FuncResult
		ob *Obligation
		i  int
	}
	var jobs []job
	for _, fr := range frs {
		for _, ob := range fr.Obls {
			jobs = append(jobs, job{fr, ob, len(jobs)})
		}
	}
	results := make([]*ObResult, len(jobs))
	var wg sync.WaitGroup
	sem := make(chan struct{}, cfg.Workers)
	for _, j := range jobs {
		wg.Add(1)
		sem <- struct{}{}
		go func(j job) {
			defer wg.Done()
			defer func() { <-sem }()
			script := BuildQuery(j.fr, j.ob)
			results[j.i] = decide(j.ob, script, cfg)
		}(j)
	}
	wg.Wait()
	return results
}
