package vc

import (
	"go/constant"
	"fmt"
	"go/token"
	"go/types"
	"math/big"
	"strings"

	"golang.org/x/tools/go/ssa"
)

func (g *FuncGen) setVal(v ssa.Value, sort string, expr string) string {
	name := g.def("v:"+v.Name(), sort, expr)
	g.vals[v] = name
	return name
}

func (g *FuncGen) execInstr(in ssa.Instruction) {
	switch x := in.(type) {
	case *ssa.DebugRef:
		return
	case *ssa.Alloc:
		g.execAlloc(x)
	case *ssa.Store:
		a := g.addrOf(x.Addr)
		g.checkAddrNonNil(a, x.Pos())
		g.store(a, g.val(x.Val))
	case *ssa.UnOp:
		g.execUnOp(x)
	case *ssa.BinOp:
		g.execBinOp(x)
	case *ssa.FieldAddr:
		g.execFieldAddr(x)
	case *ssa.Field:
		t := x.X.Type()
		g.setVal(x, g.sc.sortOf(x.Type()), fmt.Sprintf("(%s %s)", g.sc.fieldSel(t, x.Field), g.val(x.X)))
	case *ssa.IndexAddr:
		g.execIndexAddr(x)
	case *ssa.Index:
		g.execIndex(x)
	case *ssa.Slice:
		g.execSlice(x)
	case *ssa.Convert:
		g.execConvert(x)
	case *ssa.ChangeType:
		g.vals[x] = g.val(x.X)
	case *ssa.ChangeInterface:
		g.vals[x] = g.val(x.X)
	case *ssa.MakeInterface:
		g.execMakeInterface(x)
	case *ssa.TypeAssert:
		g.execTypeAssert(x)
	case *ssa.MakeSlice:
		g.execMakeSlice(x)
	case *ssa.MakeMap:
		r := g.freshRef()
		mt := x.Type().Underlying().(*types.Map)
		dom, _ := g.sc.mapComps(mt)
		ks := g.sc.sortOf(mt.Key())
		g.assume(fmt.Sprintf("(= (select %s %s) ((as const (Array %s Bool)) false))", g.get(g.st, dom), r, ks))
		lt, _ := g.sc.mapLen(ks, fmt.Sprintf("((as const (Array %s Bool)) false)", ks))
		g.assume(fmt.Sprintf("(= %s 0)", lt))
		g.vals[x] = r
	case *ssa.MakeChan:
		g.vals[x] = g.freshRef()
	case *ssa.MakeClosure:
		g.vals[x] = g.freshRef()
		g.assumptions["closure created in "+g.key+" ("+x.Fn.Name()+"): its body is verified separately only if it has its own contract"] = true
	case *ssa.Phi:
		g.execPhi(x)
	case *ssa.Extract:
		tup, ok := g.tups[x.Tuple]
		if !ok {
			unsup("extract from unknown tuple %s", x.Tuple.Name())
		}
		g.vals[x] = tup[x.Index]
	case *ssa.Call:
		g.execCall(x, &x.Call, x)
	case *ssa.Defer:
		g.defers = append(g.defers, x)
	case *ssa.RunDefers:
		g.execRunDefers(x)
	case *ssa.Go:
		if g.c != nil && g.c.Opts["forkjoin"] != "" {
			// structured fork-join (wg.Add; go f(...); ...; wg.Wait): the goroutine body is executed at the
			// spawn point; sound for race-free bodies working on disjoint data (assumes C17)
			g.assumptions["fork-join goroutines in "+g.key+" are executed sequentially at the go statement (assumes data-race freedom, C17)"] = true
			g.execCall(x, &x.Call, nil)
		} else {
			g.assumptions["goroutine started in "+g.key+": not modelled (its effects are not part of this function's contract)"] = true
		}
	case *ssa.Send:
		g.execSend(x)
	case *ssa.Select:
		g.execSelect(x)
	case *ssa.Lookup:
		g.execLookup(x)
	case *ssa.MapUpdate:
		g.execMapUpdate(x)
	case *ssa.Range:
		g.execRange(x)
	case *ssa.Next:
		g.execNext(x)
	case *ssa.Panic:
		g.execPanic(x)
	case *ssa.If:
		c := g.val(x.Cond)
		b := x.Block()
		g.setEdge(b, b.Succs[0], and(g.guard, c))
		g.setEdge(b, b.Succs[1], and(g.guard, fmt.Sprintf("(not %s)", c)))
	case *ssa.Jump:
		b := x.Block()
		g.setEdge(b, b.Succs[0], g.guard)
	case *ssa.Return:
		g.execReturn(x)
	case *ssa.SliceToArrayPointer, *ssa.MultiConvert:
		unsup("instruction %T", in)
	default:
		unsup("instruction %T", in)
	}
}

func (g *FuncGen) execAlloc(x *ssa.Alloc) {
	et := deref(x.Type())
	if !x.Heap {
		key := g.cellOf[x]
		g.addrs[x] = &Addr{kind: aCell, key: key, typ: et}
		// zero-initialise (locals are zeroed at their declaration, also in loops)
		g.update(key, g.sc.zero(et))
		return
	}
	r := g.freshRef()
	g.vals[x] = r
	a := g.addrFromRef(r, et)
	g.addrs[x] = a
	switch a.kind {
	case aRefStruct:
		g.assumeZeroStruct(r, et)
	case aArr:
		ae := et.Underlying().(*types.Array).Elem()
		g.assumeZeroArray(r, ae)
	case aHeapCell:
		g.assume(fmt.Sprintf("(= (select %s %s) %s)", g.get(g.st, a.comp), r, g.sc.zero(et)))
	}
}

func (g *FuncGen) assumeZeroStruct(ref string, t types.Type) {
	st, _ := isStruct(t)
	// scalar ghost fields of a freshly allocated object start at zero / false / nil
	if named, ok := t.(*types.Named); ok {
		for _, sf := range g.env.Specs {
			for _, gf := range sf.Ghosts {
				local := named.Obj().Name() == gf.Struct && (named.Obj().Pkg() == nil || named.Obj().Pkg().Path() == sf.PkgPath)
				qualified := strings.Contains(gf.Struct, ".") && typeName(t) == gf.Struct
				if !(local || qualified) {
					continue
				}
				cx := g.newSpecCtx(g.st, g.st)
				key, gt, special, ok := cx.ghostField(t, gf.Name)
				if !ok || special != "" {
					continue
				}
				zero := "0"
				if gt != nil {
					zero = g.sc.zero(gt)
				}
				g.assume(fmt.Sprintf("(= (select %s %s) %s)", g.get(g.st, key), ref, zero))
			}
		}
	}
	for i := 0; i < st.NumFields(); i++ {
		ft := st.Field(i).Type()
		if _, ok := isStruct(ft); ok {
			r, ax := g.sc.fldRef(t, i, ref)
			g.assumeAll(ax)
			g.assumeZeroStruct(r, ft)
		} else {
			k := g.sc.fieldCompReg(t, i)
			g.assume(fmt.Sprintf("(= (select %s %s) %s)", g.get(g.st, k), ref, g.sc.zero(ft)))
		}
	}
}

func (g *FuncGen) checkAddrNonNil(a *Addr, p token.Pos) {
	switch a.kind {
	case aHeapField, aRefStruct, aHeapCell:
		if g.isFreshRef(a.ref) || g.interior[a.ref] || g.nilSeen(a.ref) {
			return
		}
		g.oblig("nil", "", fmt.Sprintf("(not (= %s 0))", g.rootRef(a.ref)), p, nil, "nil dereference")
	}
}

// nilSeen reports whether a nil check for this reference term was already emitted at a dominating point.
func (g *FuncGen) nilSeen(ref string) bool {
	if b, ok := g.nilChecked[ref]; ok && (b == g.cur || b.Dominates(g.cur)) {
		return true
	}
	g.nilChecked[ref] = g.cur
	return false
}

// rootRef strips interior-field functions: (fld (fld r)) is nil iff never; we check the root.
func (g *FuncGen) rootRef(ref string) string { return ref }

func (g *FuncGen) isFreshRef(ref string) bool {
	return len(ref) > 5 && ref[:5] == "|ref!"
}

func (g *FuncGen) execUnOp(x *ssa.UnOp) {
	switch x.Op {
	case token.MUL: // load
		a := g.addrOf(x.X)
		g.checkAddrNonNil(a, x.Pos())
		t := g.load(a)
		name := g.setVal(x, g.sc.sortOf(x.Type()), t)
		if a.kind != aCell {
			g.assumeValid(x.Type(), name)
		}
	case token.NOT:
		g.setVal(x, "Bool", fmt.Sprintf("(not %s)", g.val(x.X)))
	case token.SUB:
		if isFloat(x.Type()) {
			g.setVal(x, "Real", fmt.Sprintf("(- %s)", g.val(x.X)))
		} else {
			g.setVal(x, "Int", g.sc.wrap(x.Type(), fmt.Sprintf("(- %s)", g.val(x.X))))
		}
	case token.XOR:
		b, _ := isInt(x.Type())
		_, hi, _, signed := intRange(b)
		if signed {
			g.setVal(x, "Int", fmt.Sprintf("(- (- %s) 1)", g.val(x.X)))
		} else {
			g.setVal(x, "Int", fmt.Sprintf("(- %s %s)", hi.String(), g.val(x.X)))
		}
	case token.ARROW:
		// channel receive: arbitrary value
		if x.CommaOk {
			et := x.Type().(*types.Tuple).At(0).Type()
			v := g.declare("recv", g.sc.sortOf(et))
			g.assumeValid(et, v)
			ok := g.declare("recvok", "Bool")
			g.tups[x] = []string{v, ok}
		} else {
			v := g.declare("recv", g.sc.sortOf(x.Type()))
			g.assumeValid(x.Type(), v)
			g.vals[x] = v
		}
		g.assumptions["channel receive yields an arbitrary well-typed value"] = true
	default:
		unsup("unop %s", x.Op)
	}
}

// shlConst reports whether v is a left shift by a constant amount.
func shlConst(v ssa.Value) (int, bool) {
	if b, ok := v.(*ssa.BinOp); ok && b.Op == token.SHL {
		if c, ok := constInt(b.Y); ok && c.IsInt64() && c.Int64() < 64 {
			return int(c.Int64()), true
		}
	}
	return 0, false
}

// maskConst reports whether v is an AND with a constant of the form 2^m - 1.
func maskConst(v ssa.Value) (int, bool) {
	if b, ok := v.(*ssa.BinOp); ok && b.Op == token.AND {
		if c, ok := constInt(b.Y); ok {
			return isPow2Minus1(c)
		}
		if c, ok := constInt(b.X); ok {
			return isPow2Minus1(c)
		}
	}
	return 0, false
}

func isPow2Minus1(v *big.Int) (int, bool) {
	if v.Sign() < 0 {
		return 0, false
	}
	n := new(big.Int).Add(v, big.NewInt(1))
	if n.BitLen() > 0 && new(big.Int).And(n, v).Sign() == 0 {
		return n.BitLen() - 1, true
	}
	return 0, false
}

func constInt(v ssa.Value) (*big.Int, bool) {
	c, ok := v.(*ssa.Const)
	if !ok || c.Value == nil {
		return nil, false
	}
	if _, ok := isInt(c.Type()); !ok {
		return nil, false
	}
	b, ok := new(big.Int).SetString(c.Value.ExactString(), 10)
	return b, ok
}

func (g *FuncGen) execBinOp(x *ssa.BinOp) {
	xt := x.X.Type()
	a, b := g.val(x.X), g.val(x.Y)
	switch x.Op {
	case token.EQL, token.NEQ:
		eq := g.equalTerm(xt, x.X, x.Y, a, b)
		if x.Op == token.NEQ {
			eq = fmt.Sprintf("(not %s)", eq)
		}
		g.setVal(x, "Bool", eq)
		return
	case token.LSS, token.LEQ, token.GTR, token.GEQ:
		op := map[token.Token]string{token.LSS: "<", token.LEQ: "<=", token.GTR: ">", token.GEQ: ">="}[x.Op]
		if isString(xt) {
			g.sc.declare("strlt", "(declare-fun strlt (Str Str) Bool)")
			switch x.Op {
			case token.LSS:
				g.setVal(x, "Bool", fmt.Sprintf("(strlt %s %s)", a, b))
			case token.GTR:
				g.setVal(x, "Bool", fmt.Sprintf("(strlt %s %s)", b, a))
			case token.LEQ:
				g.setVal(x, "Bool", fmt.Sprintf("(not (strlt %s %s))", b, a))
			default:
				g.setVal(x, "Bool", fmt.Sprintf("(not (strlt %s %s))", a, b))
			}
			return
		}
		g.setVal(x, "Bool", fmt.Sprintf("(%s %s %s)", op, a, b))
		return
	}
	t := x.Type()
	if isFloat(t) {
		switch x.Op {
		case token.ADD, token.SUB, token.MUL:
			g.setVal(x, "Real", fmt.Sprintf("(%s %s %s)", x.Op.String(), a, b))
		case token.QUO:
			g.setVal(x, "Real", fmt.Sprintf("(/ %s %s)", a, b))
			g.assumptions["float division: IEEE Inf/NaN on zero divisor not modelled (reals)"] = true
		default:
			unsup("float binop %s", x.Op)
		}
		g.assumptions["float64/float32 arithmetic idealised as real arithmetic"] = true
		return
	}
	if isString(t) {
		if x.Op == token.ADD {
			g.sc.declare("strcat", "(declare-fun strcat (Str Str) Str)")
			r := g.setVal(x, "Str", fmt.Sprintf("(strcat %s %s)", a, b))
			g.assume(fmt.Sprintf("(= (strlen %s) (+ (strlen %s) (strlen %s)))", r, a, b))
			return
		}
		unsup("string binop %s", x.Op)
	}
	bt, ok := isInt(t)
	if !ok {
		unsup("binop %s on %s", x.Op, t)
	}
	_, _, bits, signed := intRange(bt)
	var e string
	// interval analysis: when the operand ranges (from narrow source types) show the exact result fits the
	// result type, the machine operation is the mathematical one and no wrap-around term is needed
	noWrap := func(op token.Token) bool {
		alo, ahi, ok1 := g.rangeOf(x.X)
		blo, bhi, ok2 := g.rangeOf(x.Y)
		if !ok1 || !ok2 {
			return false
		}
		var lo, hi *big.Int
		switch op {
		case token.ADD:
			lo, hi = new(big.Int).Add(alo, blo), new(big.Int).Add(ahi, bhi)
		case token.SUB:
			lo, hi = new(big.Int).Sub(alo, bhi), new(big.Int).Sub(ahi, blo)
		default:
			return false
		}
		tlo, thi, _, _ := intRange(bt)
		if lo.Cmp(tlo) < 0 || hi.Cmp(thi) > 0 {
			return false
		}
		if g.rng == nil {
			g.rng = map[ssa.Value][2]*big.Int{}
		}
		g.rng[x] = [2]*big.Int{lo, hi}
		return true
	}
	switch x.Op {
	case token.ADD:
		if noWrap(token.ADD) {
			e = fmt.Sprintf("(+ %s %s)", a, b)
		} else {
			e = g.sc.wrap(t, fmt.Sprintf("(+ %s %s)", a, b))
		}
	case token.SUB:
		if noWrap(token.SUB) {
			e = fmt.Sprintf("(- %s %s)", a, b)
		} else {
			e = g.sc.wrap(t, fmt.Sprintf("(- %s %s)", a, b))
		}
	case token.MUL:
		e = g.sc.wrap(t, fmt.Sprintf("(* %s %s)", a, b))
	case token.QUO:
		if _, isC := constInt(x.Y); !isC {
			g.oblig("div", "", fmt.Sprintf("(not (= %s 0))", b), x.Pos(), nil, "division by zero")
			g.sc.divModDecls()
			g.assumeAll(divModFacts(a, b))
			if signed {
				g.assumeAll(tdivModFacts(a, b))
				e = g.sc.wrap(t, fmt.Sprintf("(utdiv %s %s)", a, b))
			} else {
				e = fmt.Sprintf("(udiv %s %s)", a, b)
			}
		} else if signed {
			e = g.sc.wrap(t, fmt.Sprintf("(tdiv %s %s)", a, b))
		} else {
			e = fmt.Sprintf("(div %s %s)", a, b)
		}
	case token.REM:
		if _, isC := constInt(x.Y); !isC {
			g.oblig("div", "", fmt.Sprintf("(not (= %s 0))", b), x.Pos(), nil, "division by zero (remainder)")
			g.sc.divModDecls()
			g.assumeAll(divModFacts(a, b))
			if signed {
				g.assumeAll(tdivModFacts(a, b))
				e = fmt.Sprintf("(utmod %s %s)", a, b)
			} else {
				e = fmt.Sprintf("(umod %s %s)", a, b)
			}
		} else if signed {
			e = fmt.Sprintf("(tmod %s %s)", a, b)
		} else {
			e = fmt.Sprintf("(mod %s %s)", a, b)
		}
	case token.AND:
		if c, ok := constInt(x.Y); ok {
			if k, ok := isPow2Minus1(c); ok {
				e = fmt.Sprintf("(mod %s %s)", a, pow2(k))
				break
			}
		}
		if c, ok := constInt(x.X); ok {
			if k, ok := isPow2Minus1(c); ok {
				e = fmt.Sprintf("(mod %s %s)", b, pow2(k))
				break
			}
		}
		// AND with a single-bit constant 2^k, or (unsigned) with a high mask 2^w - 2^k: exact arithmetic forms
		if exact, ok := andConstForm(x.X, x.Y, a, b, bits, signed); ok {
			e = exact
			break
		}
		e = fmt.Sprintf("(bitand %s %s)", a, b)
		g.assumptions["bitwise AND with a non-mask operand is uninterpreted in math mode"] = true
	case token.AND_NOT:
		if c, ok := constInt(x.Y); ok {
			if k, ok := isPow2Minus1(c); ok && !signed {
				// clear low k bits
				e = fmt.Sprintf("(* (div %s %s) %s)", a, pow2(k), pow2(k))
				break
			}
		}
		e = fmt.Sprintf("(bitand %s (- (- %s) 1))", a, b)
	case token.OR:
		// (u << k) | (v & (2^m - 1)) with m <= k: the operands occupy disjoint bits, so OR is addition
		if k, ok1 := shlConst(x.X); ok1 {
			if m, ok2 := maskConst(x.Y); ok2 && m <= k {
				e = fmt.Sprintf("(+ %s %s)", a, b)
				break
			}
		}
		if k, ok1 := shlConst(x.Y); ok1 {
			if m, ok2 := maskConst(x.X); ok2 && m <= k {
				e = fmt.Sprintf("(+ %s %s)", a, b)
				break
			}
		}
		e = fmt.Sprintf("(bitor %s %s)", a, b)
		g.assumptions["bitwise OR is uninterpreted in math mode"] = true
	case token.XOR:
		if c, ok := constInt(x.Y); ok && !signed {
			if k, ok := isPow2Minus1(c); ok && k == bits {
				e = fmt.Sprintf("(- %s %s)", c.String(), a)
				break
			}
		}
		e = fmt.Sprintf("(bitxor %s %s)", a, b)
		g.assumptions["bitwise XOR is uninterpreted in math mode"] = true
	case token.SHL:
		if c, ok := constInt(x.Y); ok && c.IsInt64() && c.Int64() < 64 {
			e = g.sc.wrapExact(t, fmt.Sprintf("(* %s %s)", a, pow2(int(c.Int64()))))
		} else {
			e = fmt.Sprintf("(shl %s %s)", a, b)
			g.assumptions["variable shift is uninterpreted in math mode"] = true
		}
	case token.SHR:
		if c, ok := constInt(x.Y); ok && c.IsInt64() && c.Int64() < 64 {
			e = fmt.Sprintf("(div %s %s)", a, pow2(int(c.Int64())))
		} else {
			e = fmt.Sprintf("(shr %s %s)", a, b)
			g.assumptions["variable shift is uninterpreted in math mode"] = true
		}
	default:
		unsup("int binop %s", x.Op)
	}
	name := g.setVal(x, "Int", e)
	if bits == 64 && signed && (x.Op == token.ADD || x.Op == token.SUB || x.Op == token.MUL) {
		g.assumptions["int/int64 arithmetic is mathematical (no overflow) in math mode"] = true
	}
	switch x.Op {
	case token.AND, token.OR, token.XOR, token.SHL, token.SHR, token.AND_NOT:
		// result is in range of its type
		g.assumeValid(t, name)
	}
}

func (g *FuncGen) equalTerm(t types.Type, xv, yv ssa.Value, a, b string) string {
	switch t.Underlying().(type) {
	case *types.Slice:
		// only comparison with nil is legal
		if isNilConst(yv) {
			return fmt.Sprintf("(= (s-arr %s) 0)", a)
		}
		return fmt.Sprintf("(= (s-arr %s) 0)", b)
	case *types.Interface:
		if isNilConst(yv) {
			return fmt.Sprintf("(= (i-typ %s) 0)", a)
		}
		if isNilConst(xv) {
			return fmt.Sprintf("(= (i-typ %s) 0)", b)
		}
	}
	return fmt.Sprintf("(= %s %s)", a, b)
}

func isNilConst(v ssa.Value) bool {
	c, ok := v.(*ssa.Const)
	return ok && c.Value == nil
}

func (g *FuncGen) execFieldAddr(x *ssa.FieldAddr) {
	base := g.addrOf(x.X)
	st := deref(x.X.Type())
	s, _ := isStruct(st)
	ft := s.Field(x.Field).Type()
	switch base.kind {
	case aCell, aGlobal:
		np := append(append([]pathElem{}, base.path...), pathElem{field: x.Field})
		g.addrs[x] = &Addr{kind: base.kind, key: base.key, path: np, typ: ft}
	case aRefStruct:
		if !g.isFreshRef(base.ref) && !g.interior[base.ref] && !g.nilSeen(base.ref) {
			g.oblig("nil", "", fmt.Sprintf("(not (= %s 0))", base.ref), x.Pos(), nil, "nil dereference (field "+s.Field(x.Field).Name()+")")
		}
		if _, ok := isStruct(ft); ok {
			r, ax := g.sc.fldRef(st, x.Field, base.ref)
			g.assumeAll(ax)
			rn := g.def("ir", "Int", r)
			g.addrs[x] = &Addr{kind: aRefStruct, ref: rn, typ: ft}
			g.vals[x] = rn
			g.interior[rn] = true
		} else {
			g.addrs[x] = &Addr{kind: aHeapField, comp: g.sc.fieldCompReg(st, x.Field), ref: base.ref, typ: ft}
		}
	default:
		unsup("FieldAddr on address kind %d", base.kind)
	}
}

func (g *FuncGen) execIndexAddr(x *ssa.IndexAddr) {
	idx := g.val(x.Index)
	switch xt := x.X.Type().Underlying().(type) {
	case *types.Slice:
		s := g.val(x.X)
		g.oblig("index", "", fmt.Sprintf("(and (<= 0 %s) (< %s (s-len %s)))", idx, idx, s), x.Pos(), nil, "index out of range")
		pos, fact := g.sc.sliceIdx(s, idx)
		g.assume(fact)
		g.addrs[x] = g.elemAddr(xt.Elem(), fmt.Sprintf("(s-arr %s)", s), pos, x)
	case *types.Pointer:
		at := xt.Elem().Underlying().(*types.Array)
		base := g.addrOf(x.X)
		g.oblig("index", "", fmt.Sprintf("(and (<= 0 %s) (< %s %d))", idx, idx, at.Len()), x.Pos(), nil, "array index out of range")
		switch base.kind {
		case aArr:
			g.addrs[x] = g.elemAddr(at.Elem(), base.ref, idx, x)
		case aCell, aGlobal:
			np := append(append([]pathElem{}, base.path...), pathElem{field: -1, idx: idx})
			g.addrs[x] = &Addr{kind: base.kind, key: base.key, path: np, typ: at.Elem()}
		default:
			unsup("IndexAddr on array address kind %d", base.kind)
		}
	default:
		unsup("IndexAddr on %s", x.X.Type())
	}
}

func (g *FuncGen) elemAddr(et types.Type, arr, idx string, v ssa.Value) *Addr {
	if _, ok := isStruct(et); ok {
		r, ax := g.sc.elemRef(et, arr, idx)
		g.assumeAll(ax)
		rn := g.def("er", "Int", r)
		if v != nil {
			g.vals[v] = rn
		}
		g.interior[rn] = true
		return &Addr{kind: aRefStruct, ref: rn, typ: et}
	}
	return &Addr{kind: aElem, comp: g.sc.elemComp(et), arr: arr, idx: idx, typ: et}
}

func (g *FuncGen) execIndex(x *ssa.Index) {
	idx := g.val(x.Index)
	switch xt := x.X.Type().Underlying().(type) {
	case *types.Array:
		g.oblig("index", "", fmt.Sprintf("(and (<= 0 %s) (< %s %d))", idx, idx, xt.Len()), x.Pos(), nil, "array index out of range")
		g.setVal(x, g.sc.sortOf(x.Type()), fmt.Sprintf("(select %s %s)", g.val(x.X), idx))
	case *types.Basic: // string
		s := g.val(x.X)
		g.oblig("index", "", fmt.Sprintf("(and (<= 0 %s) (< %s (strlen %s)))", idx, idx, s), x.Pos(), nil, "string index out of range")
		g.sc.declare("strat", "(declare-fun strat (Str Int) Int)")
		n := g.setVal(x, "Int", fmt.Sprintf("(strat %s %s)", s, idx))
		g.assumeValid(x.Type(), n)
	default:
		unsup("Index on %s", x.X.Type())
	}
}

func (g *FuncGen) execSlice(x *ssa.Slice) {
	lo, hi, max := "0", "", ""
	if x.Low != nil {
		lo = g.val(x.Low)
	}
	if x.High != nil {
		hi = g.val(x.High)
	}
	if x.Max != nil {
		max = g.val(x.Max)
	}
	switch xt := x.X.Type().Underlying().(type) {
	case *types.Slice:
		s := g.val(x.X)
		if hi == "" {
			hi = fmt.Sprintf("(s-len %s)", s)
		}
		capx := fmt.Sprintf("(s-cap %s)", s)
		cond := fmt.Sprintf("(and (<= 0 %s) (<= %s %s) (<= %s %s))", lo, lo, hi, hi, capx)
		newcap := fmt.Sprintf("(- %s %s)", capx, lo)
		if max != "" {
			cond = fmt.Sprintf("(and (<= 0 %s) (<= %s %s) (<= %s %s) (<= %s %s))", lo, lo, hi, hi, max, max, capx)
			newcap = fmt.Sprintf("(- %s %s)", max, lo)
		}
		g.oblig("slice", "", cond, x.Pos(), nil, "slice bounds out of range")
		// Go: slicing a nil slice yields nil; arr stays 0 then
		g.setVal(x, "Slice", fmt.Sprintf("(mk-slice (s-arr %s) (+ (s-off %s) %s) (- %s %s) %s)", s, s, lo, hi, lo, newcap))
	case *types.Pointer:
		at := xt.Elem().Underlying().(*types.Array)
		base := g.addrOf(x.X)
		if base.kind != aArr {
			unsup("slice of array at address kind %d", base.kind)
		}
		n := fmt.Sprintf("%d", at.Len())
		if hi == "" {
			hi = n
		}
		capx := n
		if max != "" {
			capx = max
		}
		if x.Low != nil || x.High != nil || x.Max != nil {
			g.oblig("slice", "", fmt.Sprintf("(and (<= 0 %s) (<= %s %s) (<= %s %s) (<= %s %s))", lo, lo, hi, hi, capx, capx, n), x.Pos(), nil, "slice bounds out of range")
		}
		g.setVal(x, "Slice", fmt.Sprintf("(mk-slice %s %s (- %s %s) (- %s %s))", base.ref, lo, hi, lo, capx, lo))
	case *types.Basic: // string
		s := g.val(x.X)
		if hi == "" {
			hi = fmt.Sprintf("(strlen %s)", s)
		}
		g.oblig("slice", "", fmt.Sprintf("(and (<= 0 %s) (<= %s %s) (<= %s (strlen %s)))", lo, lo, hi, hi, s), x.Pos(), nil, "string slice bounds out of range")
		g.sc.declare("substr", "(declare-fun substr (Str Int Int) Str)")
		r := g.setVal(x, "Str", fmt.Sprintf("(substr %s %s %s)", s, lo, hi))
		g.assume(fmt.Sprintf("(= (strlen %s) (- %s %s))", r, hi, lo))
	default:
		unsup("Slice on %s", x.X.Type())
	}
}

func (g *FuncGen) execConvert(x *ssa.Convert) {
	from, to := x.X.Type(), x.Type()
	v := g.val(x.X)
	_, fi := isInt(from)
	_, ti := isInt(to)
	switch {
	case fi && ti:
		fb, _ := isInt(from)
		tb, _ := isInt(to)
		flo, fhi, _, _ := intRange(fb)
		tlo, thi, _, _ := intRange(tb)
		if flo.Cmp(tlo) >= 0 && fhi.Cmp(thi) <= 0 {
			// widening (or same-range) conversion: value-preserving
			g.vals[x] = v
		} else {
			g.setVal(x, "Int", g.sc.wrapExact(to, v))
		}
	case fi && isFloat(to):
		g.setVal(x, "Real", fmt.Sprintf("(to_real %s)", v))
	case isFloat(from) && ti:
		n := g.setVal(x, "Int", fmt.Sprintf("(rtrunc %s)", v))
		_ = n
		g.assumptions["float-to-int conversion is mathematical truncation (out-of-range behaviour not modelled)"] = true
	case isFloat(from) && isFloat(to):
		g.vals[x] = v
		g.assumptions["float32/float64 conversion is exact (reals)"] = true
	case isString(to) || isString(from):
		// string <-> []byte / rune conversions: opaque
		r := g.declare("conv", g.sc.sortOf(to))
		if _, ok := to.Underlying().(*types.Slice); ok {
			ref := g.freshRef()
			g.emit(fmt.Sprintf("(assert (=> %s (and (= (s-arr %s) %s) (= (s-off %s) 0) (= (s-len %s) (s-cap %s)) (= (s-len %s) (strlen %s)))))", g.guard, r, ref, r, r, r, r, v))
			if sl := to.Underlying().(*types.Slice); isUint8(sl.Elem()) && isString(from) {
				// the bytes of the fresh array are the bytes of the string
				g.sc.declare("strat", "(declare-fun strat (Str Int) Int)")
				k := g.sc.elemComp(sl.Elem())
				g.assume(fmt.Sprintf("(forall ((k! Int)) (! (=> (and (<= 0 k!) (< k! (strlen %s))) (= (select (select %s %s) k!) (strat %s k!))) :pattern ((select (select %s %s) k!))))", v, g.get(g.st, k), ref, v, g.get(g.st, k), ref))
				// converting these bytes back yields the string
				g.sc.declare("strofbytes", "(declare-fun strofbytes ((Array Int Int) Int Int) Str)")
				g.assume(fmt.Sprintf("(= (strofbytes (select %s %s) 0 (strlen %s)) %s)", g.get(g.st, k), ref, v, v))
			}
		} else if fs, ok := from.Underlying().(*types.Slice); ok {
			g.assume(fmt.Sprintf("(= (strlen %s) (s-len %s))", r, v))
			if isUint8(fs.Elem()) {
				// string(b) is a function of the bytes of b
				g.sc.declare("strofbytes", "(declare-fun strofbytes ((Array Int Int) Int Int) Str)")
				g.assume(fmt.Sprintf("(= %s (strofbytes (select %s (s-arr %s)) (s-off %s) (s-len %s)))", r, g.get(g.st, g.sc.elemComp(fs.Elem())), v, v, v))
			}
		} else {
			g.assume(fmt.Sprintf("(>= (strlen %s) 0)", r))
		}
		g.vals[x] = r
		g.assumptions["string conversions are opaque (length-preserving only)"] = true
	default:
		if g.sc.sortOf(from) == g.sc.sortOf(to) {
			g.vals[x] = v
			return
		}
		unsup("convert %s -> %s", from, to)
	}
}

func isUint8(t types.Type) bool {
	b, ok := t.Underlying().(*types.Basic)
	return ok && b.Kind() == types.Uint8
}

func (g *FuncGen) boxFun(t types.Type) (box, unbox string) {
	n := typeName(t)
	box, unbox = q("box:"+n), q("unbox:"+n)
	s := g.sc.sortOf(t)
	g.sc.declare(box, fmt.Sprintf("(declare-fun %s (%s) Int)", box, s))
	g.sc.declare(unbox, fmt.Sprintf("(declare-fun %s (Int) %s)", unbox, s))
	return
}

func (g *FuncGen) execMakeInterface(x *ssa.MakeInterface) {
	t := x.X.Type()
	id := g.sc.typeID("type:" + typeName(t))
	v := g.val(x.X)
	if g.sc.sortOf(t) == "Int" {
		if _, isI := isInt(t); !isI {
			// pointer-like: payload is the reference itself
			g.setVal(x, "Iface", fmt.Sprintf("(mk-iface %d %s)", id, v))
			return
		}
	}
	box, unbox := g.boxFun(t)
	r := g.setVal(x, "Iface", fmt.Sprintf("(mk-iface %d (%s %s))", id, box, v))
	g.assume(fmt.Sprintf("(= (%s (i-val %s)) %s)", unbox, r, v))
}

func (g *FuncGen) unboxTerm(t types.Type, iv string) string {
	if g.sc.sortOf(t) == "Int" {
		if _, isI := isInt(t); !isI {
			return fmt.Sprintf("(i-val %s)", iv)
		}
	}
	_, unbox := g.boxFun(t)
	return fmt.Sprintf("(%s (i-val %s))", unbox, iv)
}

func (g *FuncGen) execTypeAssert(x *ssa.TypeAssert) {
	iv := g.val(x.X)
	at := x.AssertedType
	if _, isIface := at.Underlying().(*types.Interface); isIface {
		// interface-to-interface assertion: succeeds iff dynamic type implements it; opaque
		ok := g.declare("taok", "Bool")
		if x.CommaOk {
			g.tups[x] = []string{iv, ok}
			g.assume(fmt.Sprintf("(=> (= (i-typ %s) 0) (not %s))", iv, ok))
		} else {
			g.oblig("typeassert", "", ok, x.Pos(), nil, "interface type assertion may fail")
			g.vals[x] = iv
		}
		return
	}
	id := g.sc.typeID("type:" + typeName(at))
	okT := fmt.Sprintf("(= (i-typ %s) %d)", iv, id)
	val := g.unboxTerm(at, iv)
	if x.CommaOk {
		okn := g.def("taok", "Bool", okT)
		vn := g.def("tav", g.sc.sortOf(at), fmt.Sprintf("(ite %s %s %s)", okn, val, g.sc.zero(at)))
		g.guardedValid(okn, at, vn)
		g.tups[x] = []string{vn, okn}
	} else {
		g.oblig("typeassert", "", okT, x.Pos(), nil, "type assertion to "+typeName(at)+" may fail")
		vn := g.setVal(x, g.sc.sortOf(at), val)
		g.assumeValid(at, vn)
	}
}

func (g *FuncGen) guardedValid(cond string, t types.Type, term string) {
	for _, c := range g.sc.valid(t, term, g.alloc(), 0) {
		g.assume(fmt.Sprintf("(=> %s %s)", cond, c))
	}
}

func (g *FuncGen) execMakeSlice(x *ssa.MakeSlice) {
	ln, cp := g.val(x.Len), g.val(x.Cap)
	g.oblig("make", "", fmt.Sprintf("(and (<= 0 %s) (<= %s %s))", ln, ln, cp), x.Pos(), nil, "makeslice: len/cap out of range")
	r := g.freshRef()
	et := x.Type().Underlying().(*types.Slice).Elem()
	g.assumeZeroArray(r, et)
	g.setVal(x, "Slice", fmt.Sprintf("(mk-slice %s 0 %s %s)", r, ln, cp))
}

func (g *FuncGen) assumeZeroArray(r string, et types.Type) {
	if _, ok := isStruct(et); ok {
		var comps []string
		g.sc.leafComps(et, map[string]bool{}, &comps)
		// all leaves of all elements are zero: quantified
		g.zeroStructElems(r, et, et, func(ref string) string { return ref })
		return
	}
	k := g.sc.elemComp(et)
	g.assume(fmt.Sprintf("(= (select %s %s) ((as const (Array Int %s)) %s))", g.get(g.st, k), r, g.sc.sortOf(et), g.sc.zero(et)))
}

func (g *FuncGen) zeroStructElems(arr string, elemT, t types.Type, wrapRef func(string) string) {
	st, _ := isStruct(t)
	for i := 0; i < st.NumFields(); i++ {
		ft := st.Field(i).Type()
		if _, ok := isStruct(ft); ok {
			ii := i
			tt := t
			g.zeroStructElems(arr, elemT, ft, func(ref string) string {
				r, _ := g.sc.fldRef(tt, ii, wrapRef(ref))
				return r
			})
		} else {
			k := g.sc.fieldCompReg(t, i)
			er, _ := g.sc.elemRef(elemT, arr, "zi!")
			ref := wrapRef(er)
			g.assume(fmt.Sprintf("(forall ((zi! Int)) (! (= (select %s %s) %s) :pattern (%s)))", g.get(g.st, k), ref, g.sc.zero(ft), er))
		}
	}
}

func (g *FuncGen) execPhi(x *ssa.Phi) {
	b := x.Block()
	var expr string
	n := 0
	for i := len(b.Preds) - 1; i >= 0; i-- {
		p := b.Preds[i]
		e, ok := g.edges[[2]int{p.Index, b.Index}]
		if !ok {
			continue
		}
		v := g.val(x.Edges[i])
		if n == 0 {
			expr = v
		} else {
			expr = fmt.Sprintf("(ite %s %s %s)", e, v, expr)
		}
		n++
	}
	if n == 0 {
		unsup("phi with no reachable edges")
	}
	g.setVal(x, g.sc.sortOf(x.Type()), expr)
}

func (g *FuncGen) execPanic(x *ssa.Panic) {
	// a reachable panic is a violation unless the contract allows it (panics_if)
	allowed := "false"
	if g.c != nil && len(g.c.PanicsIf) > 0 {
		cx := g.newSpecCtx(g.entry, g.entry)
		var cs []string
		for _, p := range g.c.PanicsIf {
			cs = append(cs, cx.boolTerm(p.E))
		}
		allowed = or(cs...)
	}
	g.oblig("panic", "", allowed, x.Pos(), nil, "explicit panic reachable")
}

func (g *FuncGen) execSend(x *ssa.Send) {
	// "cut before send: label: expr": an assertion at every channel send of the function
	if g.c != nil {
		for _, cut := range g.c.Cuts {
			if cut.Callee != "send" {
				continue
			}
			cx := g.newSpecCtx(g.st, g.entry)
			cx.locals = true
			cx.at = g.cur
			g.oblig("cut", "before-send:"+cut.C.Name, cx.boolTerm(cut.C.E), x.Pos(), cut.C.Props, cut.C.Src)
			g.assume(cx.assumeTerm(cut.C.E))
		}
	}
	g.noteSend(x.Chan)
}

func (g *FuncGen) execSelect(x *ssa.Select) {
	// result tuple: (index int, recvOk bool, r_0 T_0, ... r_n-1 T_n-1)
	idx := g.declare("selidx", "Int")
	lo := 0
	if !x.Blocking {
		lo = -1
	}
	g.assume(fmt.Sprintf("(and (<= %d %s) (< %s %d))", lo, idx, idx, len(x.States)))
	tup := []string{idx, g.declare("selok", "Bool")}
	for _, st := range x.States {
		if st.Dir == types.RecvOnly {
			et := st.Chan.Type().Underlying().(*types.Chan).Elem()
			v := g.declare("selrecv", g.sc.sortOf(et))
			g.assumeValid(et, v)
			tup = append(tup, v)
		}
	}
	g.tups[x] = tup
	if !x.Blocking && g.c != nil && g.c.Opts["select_default_only_if"] != "" {
		e, err := ParseExpr(g.c.Opts["select_default_only_if"])
		if err != nil {
			panic(specErr{err.Error()})
		}
		cx := g.newSpecCtx(g.st, g.entry)
		g.assume(fmt.Sprintf("(=> (= %s (- 1)) %s)", idx, cx.boolTerm(e)))
		g.assumptions["non-blocking select in "+g.key+": the default case is taken only if "+g.c.Opts["select_default_only_if"]+" (modelling assumption)"] = true
	}
	g.assumptions["select: any ready case may be chosen; received values are arbitrary"] = true
	// sends inside select are accounted for when the chosen branch is taken (ghost counting not supported there)
}

func (g *FuncGen) execLookup(x *ssa.Lookup) {
	if mt, ok := x.X.Type().Underlying().(*types.Map); ok {
		m := g.val(x.X)
		k := g.val(x.Index)
		dom, val := g.sc.mapComps(mt)
		in := fmt.Sprintf("(and (not (= %s 0)) (select (select %s %s) %s))", m, g.get(g.st, dom), m, k)
		v := fmt.Sprintf("(ite %s (select (select %s %s) %s) %s)", in, g.get(g.st, val), m, k, g.sc.zero(mt.Elem()))
		if x.CommaOk {
			okn := g.def("mok", "Bool", in)
			vn := g.def("mv", g.sc.sortOf(mt.Elem()), v)
			g.assumeValid(mt.Elem(), vn)
			g.tups[x] = []string{vn, okn}
		} else {
			vn := g.setVal(x, g.sc.sortOf(mt.Elem()), v)
			g.assumeValid(mt.Elem(), vn)
		}
		return
	}
	// string index
	s := g.val(x.X)
	idx := g.val(x.Index)
	g.oblig("index", "", fmt.Sprintf("(and (<= 0 %s) (< %s (strlen %s)))", idx, idx, s), x.Pos(), nil, "string index out of range")
	g.sc.declare("strat", "(declare-fun strat (Str Int) Int)")
	n := g.setVal(x, "Int", fmt.Sprintf("(strat %s %s)", s, idx))
	g.assumeValid(x.Type(), n)
}

func (g *FuncGen) execMapUpdate(x *ssa.MapUpdate) {
	mt := x.Map.Type().Underlying().(*types.Map)
	m := g.val(x.Map)
	k := g.val(x.Key)
	v := g.val(x.Value)
	g.oblig("nil", "", fmt.Sprintf("(not (= %s 0))", m), x.Pos(), nil, "assignment to entry in nil map")
	dom, val := g.sc.mapComps(mt)
	d := g.get(g.st, dom)
	ks := g.sc.sortOf(mt.Key())
	od := g.defConst("mdom", "(Array "+ks+" Bool)", fmt.Sprintf("(select %s %s)", d, m))
	nd := g.defConst("mdom", "(Array "+ks+" Bool)", fmt.Sprintf("(store %s %s true)", od, k))
	g.assumeAll(g.sc.mapLenStore(ks, od, nd, k, true))
	g.update(dom, fmt.Sprintf("(store %s %s %s)", d, m, nd))
	vv := g.get(g.st, val)
	g.update(val, fmt.Sprintf("(store %s %s (store (select %s %s) %s %s))", vv, m, vv, m, k, v))
}

func (g *FuncGen) execRange(x *ssa.Range) {
	// iterator over map or string: opaque handle; remember the collection
	g.vals[x] = g.val(x.X)
	if mt, ok := x.X.Type().Underlying().(*types.Map); ok {
		// ghost set of the keys visited so far (each key is visited exactly once; the loop ends when all
		// keys present have been visited; the iterated map must not be modified by the loop body)
		key := g.rangeVisitedKey(x)
		ks := g.sc.sortOf(mt.Key())
		g.update(key, fmt.Sprintf("((as const (Array %s Bool)) false)", ks))
	}
}

// rangeVisitedKey names the ghost cell holding the visited-key set of a map range statement.
func (g *FuncGen) rangeVisitedKey(x *ssa.Range) string {
	key := fmt.Sprintf("cell:visited#%d", x.Block().Index)
	if _, ok := g.cellSort[key]; !ok {
		mt := x.X.Type().Underlying().(*types.Map)
		g.cellSort[key] = "(Array " + g.sc.sortOf(mt.Key()) + " Bool)"
		if g.visitedOf == nil {
			g.visitedOf = map[*ssa.Range]string{}
		}
		g.visitedOf[x] = key
	}
	return key
}

func (g *FuncGen) execNext(x *ssa.Next) {
	rng := x.Iter.(*ssa.Range)
	ok := g.declare("nextok", "Bool")
	if x.IsString {
		i := g.declare("nexti", "Int")
		r := g.declare("nextr", "Int")
		g.assume(fmt.Sprintf("(=> %s (and (<= 0 %s) (< %s (strlen %s))))", ok, i, i, g.val(rng.X)))
		g.tups[x] = []string{ok, i, r}
		return
	}
	mt := rng.X.Type().Underlying().(*types.Map)
	m := g.val(rng.X)
	dom, val := g.sc.mapComps(mt)
	k := g.declare("nextk", g.sc.sortOf(mt.Key()))
	g.assumeValid(mt.Key(), k)
	g.assume(fmt.Sprintf("(=> %s (and (not (= %s 0)) (select (select %s %s) %s)))", ok, m, g.get(g.st, dom), m, k))
	{
		vk := g.rangeVisitedKey(rng)
		vis := g.get(g.st, vk)
		ks := g.sc.sortOf(mt.Key())
		g.assume(fmt.Sprintf("(=> %s (not (select %s %s)))", ok, vis, k))
		g.assume(fmt.Sprintf("(=> (not %s) (forall ((vk! %s)) (! (=> (and (not (= %s 0)) (select (select %s %s) vk!)) (select %s vk!)) :pattern ((select %s vk!)))))", ok, ks, m, g.get(g.st, dom), m, vis, vis))
		g.update(vk, fmt.Sprintf("(ite %s (store %s %s true) %s)", ok, vis, k, vis))
	}
	v := g.def("nextv", g.sc.sortOf(mt.Elem()), fmt.Sprintf("(select (select %s %s) %s)", g.get(g.st, val), m, k))
	g.assumeValid(mt.Elem(), v)
	g.tups[x] = []string{ok, k, v}
	g.assumptions["map iteration visits an arbitrary present key each step (visit-once/termination not modelled)"] = true
}

func (g *FuncGen) execReturn(x *ssa.Return) {
	var res []string
	for _, r := range x.Results {
		res = append(res, g.val(r))
	}
	if g.inlineRets != nil {
		*g.inlineRets = append(*g.inlineRets, inlineRet{guard: g.guard, vals: res, st: g.st.clone()})
		return
	}
	g.checkExit(res, x.Pos())
}

// rangeOf returns a static interval for an integer SSA value when one follows from narrow source types
// (conversions from 8/16/32-bit values, constants, sums/differences of such); ok=false when only the
// full 64-bit range is known.
func (g *FuncGen) rangeOf(v ssa.Value) (lo, hi *big.Int, ok bool) {
	if r, have := g.rng[v]; have {
		return r[0], r[1], true
	}
	if c, isC := v.(*ssa.Const); isC && c.Value != nil && c.Value.Kind() == constant.Int {
		if b, okb := new(big.Int).SetString(c.Value.ExactString(), 10); okb {
			return b, b, true
		}
	}
	bt, isI := isInt(v.Type())
	if !isI {
		return nil, nil, false
	}
	if cv, isConv := v.(*ssa.Convert); isConv {
		if fb, okf := isInt(cv.X.Type()); okf {
			flo, fhi, _, _ := intRange(fb)
			tlo, thi, _, _ := intRange(bt)
			if flo.Cmp(tlo) >= 0 && fhi.Cmp(thi) <= 0 {
				// value-preserving conversion: the source's range
				if l, h, okx := g.rangeOf(cv.X); okx {
					return l, h, true
				}
			}
		}
	}
	tlo, thi, bits, _ := intRange(bt)
	if bits <= 32 {
		return tlo, thi, true
	}
	return nil, nil, false
}

// andConstForm gives the arithmetic meaning of x & c for two more shapes of constant c (non-negative x):
// c == 2^k (one bit): ((x div 2^k) mod 2) * 2^k;  c == 2^w - 2^k for an unsigned w-bit type (clear the
// low k bits): (x div 2^k) * 2^k.
func andConstForm(X, Y ssa.Value, a, b string, bits int, signed bool) (string, bool) {
	try := func(c *big.Int, v string) (string, bool) {
		if c.Sign() <= 0 {
			return "", false
		}
		if c.BitLen() > 0 && new(big.Int).And(c, new(big.Int).Sub(c, big.NewInt(1))).Sign() == 0 && !signed {
			k := c.BitLen() - 1
			return fmt.Sprintf("(* (mod (div %s %s) 2) %s)", v, pow2(k), pow2(k)), true
		}
		if !signed {
			full := new(big.Int).Sub(new(big.Int).Lsh(big.NewInt(1), uint(bits)), big.NewInt(1))
			low := new(big.Int).Sub(full, c) // the cleared low bits, must be 2^k - 1
			if k, ok := isPow2Minus1(low); ok && low.Sign() > 0 {
				return fmt.Sprintf("(* (div %s %s) %s)", v, pow2(k), pow2(k)), true
			}
		}
		return "", false
	}
	if c, ok := constInt(Y); ok {
		return try(c, a)
	}
	if c, ok := constInt(X); ok {
		return try(c, b)
	}
	return "", false
}
