package vc

// Parser for the contract language: contract files (//@ lines) and spec expressions.

import (
	"fmt"
	"math/big"
	"strings"
	"unicode"
)

// ---------- expression AST ----------

type Expr interface{ String() string }

type (
	EIdent struct{ Name string }
	EInt   struct{ Val *big.Int }
	EReal  struct{ Text string }
	EBool  struct{ Val bool }
	ENil   struct{}
	EStr   struct{ Val string }
	EUnary struct {
		Op string
		X  Expr
	}
	EBinary struct {
		Op   string
		X, Y Expr
	}
	ECall struct {
		Fun  string
		Args []Expr
	}
	ESel struct {
		X     Expr
		Field string
	}
	EIndex struct {
		X, I Expr
	}
	ESlice struct {
		X, Lo, Hi Expr
	}
	EStar struct{ X Expr } // x[*] or x.* in modifies clauses; Field=="" for [*]
	EQuant struct {
		Forall bool
		Vars   []QVar
		Body   Expr
		Pats   [][]Expr
	}
	EIte struct{ C, A, B Expr }
)

type QVar struct{ Name, Type string }

func (e *EIdent) String() string  { return e.Name }
func (e *EInt) String() string    { return e.Val.String() }
func (e *EReal) String() string   { return e.Text }
func (e *EBool) String() string   { return fmt.Sprint(e.Val) }
func (e *ENil) String() string    { return "nil" }
func (e *EStr) String() string    { return fmt.Sprintf("%q", e.Val) }
func (e *EUnary) String() string  { return "(" + e.Op + e.X.String() + ")" }
func (e *EBinary) String() string { return "(" + e.X.String() + " " + e.Op + " " + e.Y.String() + ")" }
func (e *ECall) String() string {
	var a []string
	for _, x := range e.Args {
		a = append(a, x.String())
	}
	return e.Fun + "(" + strings.Join(a, ", ") + ")"
}
func (e *ESel) String() string   { return e.X.String() + "." + e.Field }
func (e *EIndex) String() string { return e.X.String() + "[" + e.I.String() + "]" }
func (e *ESlice) String() string {
	lo, hi := "", ""
	if e.Lo != nil {
		lo = e.Lo.String()
	}
	if e.Hi != nil {
		hi = e.Hi.String()
	}
	return e.X.String() + "[" + lo + ":" + hi + "]"
}
func (e *EStar) String() string { return e.X.String() + "[*]" }
func (e *EQuant) String() string {
	q := "exists"
	if e.Forall {
		q = "forall"
	}
	var v []string
	for _, x := range e.Vars {
		v = append(v, x.Name+" "+x.Type)
	}
	return "(" + q + " " + strings.Join(v, ", ") + " :: " + e.Body.String() + ")"
}
func (e *EIte) String() string {
	return "ite(" + e.C.String() + ", " + e.A.String() + ", " + e.B.String() + ")"
}

// ---------- lexer ----------

type tok struct {
	kind string // id int real str op eof
	text string
}

func lex(s string) ([]tok, error) {
	var out []tok
	i := 0
	for i < len(s) {
		c := s[i]
		switch {
		case c == ' ' || c == '\t' || c == '\n' || c == '\r':
			i++
		case unicode.IsLetter(rune(c)) || c == '_' || c == '$':
			j := i
			for j < len(s) && (unicode.IsLetter(rune(s[j])) || unicode.IsDigit(rune(s[j])) || s[j] == '_' || s[j] == '$') {
				j++
			}
			out = append(out, tok{"id", s[i:j]})
			i = j
		case unicode.IsDigit(rune(c)):
			j := i
			isReal := false
			if c == '0' && j+1 < len(s) && (s[j+1] == 'x' || s[j+1] == 'X') {
				j += 2
				for j < len(s) && (unicode.IsDigit(rune(s[j])) || strings.ContainsRune("abcdefABCDEF_", rune(s[j]))) {
					j++
				}
			} else {
				for j < len(s) && (unicode.IsDigit(rune(s[j])) || s[j] == '_') {
					j++
				}
				if j+1 < len(s) && s[j] == '.' && unicode.IsDigit(rune(s[j+1])) {
					isReal = true
					j++
					for j < len(s) && unicode.IsDigit(rune(s[j])) {
						j++
					}
				}
			}
			if isReal {
				out = append(out, tok{"real", s[i:j]})
			} else {
				out = append(out, tok{"int", strings.ReplaceAll(s[i:j], "_", "")})
			}
			i = j
		case c == '"':
			j := i + 1
			for j < len(s) && s[j] != '"' {
				if s[j] == '\\' {
					j++
				}
				j++
			}
			if j >= len(s) {
				return nil, fmt.Errorf("unterminated string in %q", s)
			}
			out = append(out, tok{"str", s[i+1 : j]})
			i = j + 1
		default:
			ops := []string{"<==>", "==>", "::", "&&", "||", "==", "!=", "<=", ">=", "<<", ">>", "&^",
				"<", ">", "+", "-", "*", "/", "%", "&", "|", "^", "!", "(", ")", "[", "]", ",", ":", ".", "{", "}", "?"}
			found := false
			for _, op := range ops {
				if strings.HasPrefix(s[i:], op) {
					out = append(out, tok{"op", op})
					i += len(op)
					found = true
					break
				}
			}
			if !found {
				return nil, fmt.Errorf("unexpected character %q in %q", c, s)
			}
		}
	}
	out = append(out, tok{"eof", ""})
	return out, nil
}

type parser struct {
	toks []tok
	pos  int
	src  string
}

func ParseExpr(s string) (e Expr, err error) {
	toks, err := lex(s)
	if err != nil {
		return nil, err
	}
	p := &parser{toks: toks, src: s}
	defer func() {
		if r := recover(); r != nil {
			if pe, ok := r.(parseErr); ok {
				err = fmt.Errorf("%s (in %q)", string(pe), s)
				return
			}
			panic(r)
		}
	}()
	e = p.expr()
	if p.peek().kind != "eof" {
		p.fail("unexpected %q", p.peek().text)
	}
	return e, nil
}

type parseErr string

func (p *parser) fail(f string, a ...interface{}) { panic(parseErr(fmt.Sprintf(f, a...))) }
func (p *parser) peek() tok                       { return p.toks[p.pos] }
func (p *parser) next() tok                       { t := p.toks[p.pos]; p.pos++; return t }
func (p *parser) isOp(s string) bool              { t := p.peek(); return t.kind == "op" && t.text == s }
func (p *parser) accept(s string) bool {
	if p.isOp(s) {
		p.pos++
		return true
	}
	return false
}
func (p *parser) expect(s string) {
	if !p.accept(s) {
		p.fail("expected %q, got %q", s, p.peek().text)
	}
}

func (p *parser) expr() Expr {
	t := p.peek()
	if t.kind == "id" && (t.text == "forall" || t.text == "exists") {
		p.next()
		q := &EQuant{Forall: t.text == "forall"}
		for {
			n := p.next()
			if n.kind != "id" {
				p.fail("quantifier: expected variable name")
			}
			ty := p.typeStr()
			q.Vars = append(q.Vars, QVar{n.text, ty})
			if !p.accept(",") {
				break
			}
		}
		p.expect("::")
		for p.isOp("{") {
			p.next()
			var pat []Expr
			for {
				pat = append(pat, p.expr())
				if !p.accept(",") {
					break
				}
			}
			p.expect("}")
			q.Pats = append(q.Pats, pat)
		}
		q.Body = p.expr()
		return q
	}
	return p.iff()
}

// typeStr parses a Go-ish type: int, *T, []T, pkg.T
func (p *parser) typeStr() string {
	s := ""
	for {
		if p.accept("*") {
			s += "*"
		} else if p.isOp("[") {
			p.next()
			p.expect("]")
			s += "[]"
		} else {
			break
		}
	}
	n := p.next()
	if n.kind != "id" {
		p.fail("expected type name, got %q", n.text)
	}
	s += n.text
	if p.isOp(".") {
		p.next()
		m := p.next()
		s += "." + m.text
	}
	return s
}

func (p *parser) iff() Expr {
	x := p.implies()
	for p.accept("<==>") {
		y := p.implies()
		x = &EBinary{"<==>", x, y}
	}
	return x
}
func (p *parser) implies() Expr {
	x := p.or()
	if p.accept("==>") {
		// right assoc; allow a quantifier on the right
		var y Expr
		if t := p.peek(); t.kind == "id" && (t.text == "forall" || t.text == "exists") {
			y = p.expr()
		} else {
			y = p.implies()
		}
		return &EBinary{"==>", x, y}
	}
	return x
}
func (p *parser) or() Expr {
	x := p.and()
	for p.accept("||") {
		x = &EBinary{"||", x, p.and()}
	}
	return x
}
func (p *parser) and() Expr {
	x := p.cmp()
	for p.accept("&&") {
		var y Expr
		if t := p.peek(); t.kind == "id" && (t.text == "forall" || t.text == "exists") {
			y = p.expr()
		} else {
			y = p.cmp()
		}
		x = &EBinary{"&&", x, y}
	}
	return x
}
func (p *parser) cmp() Expr {
	x := p.add()
	// chained comparisons a <= b < c
	var res Expr
	for {
		t := p.peek()
		if t.kind == "op" && (t.text == "==" || t.text == "!=" || t.text == "<" || t.text == "<=" || t.text == ">" || t.text == ">=") {
			p.next()
			y := p.add()
			c := &EBinary{t.text, x, y}
			if res == nil {
				res = c
			} else {
				res = &EBinary{"&&", res, c}
			}
			x = y
			continue
		}
		break
	}
	if res != nil {
		return res
	}
	return x
}
func (p *parser) add() Expr {
	x := p.mul()
	for {
		t := p.peek()
		if t.kind == "op" && (t.text == "+" || t.text == "-" || t.text == "|" || t.text == "^") {
			p.next()
			x = &EBinary{t.text, x, p.mul()}
			continue
		}
		return x
	}
}
func (p *parser) mul() Expr {
	x := p.unary()
	for {
		t := p.peek()
		if t.kind == "op" && (t.text == "*" || t.text == "/" || t.text == "%" || t.text == "&" || t.text == "<<" || t.text == ">>" || t.text == "&^") {
			p.next()
			x = &EBinary{t.text, x, p.unary()}
			continue
		}
		return x
	}
}
func (p *parser) unary() Expr {
	if p.accept("!") {
		return &EUnary{"!", p.unary()}
	}
	if p.accept("-") {
		return &EUnary{"-", p.unary()}
	}
	if p.accept("^") {
		return &EUnary{"^", p.unary()}
	}
	if p.accept("*") {
		return &EUnary{"*", p.unary()}
	}
	return p.postfix()
}
func (p *parser) postfix() Expr {
	x := p.primary()
	for {
		switch {
		case p.isOp("."):
			p.next()
			if p.accept("*") {
				x = &EStar{&ESel{x, "*"}}
				continue
			}
			n := p.next()
			if n.kind != "id" {
				p.fail("expected field name after '.'")
			}
			x = &ESel{x, n.text}
		case p.isOp("["):
			p.next()
			if p.accept("*") {
				p.expect("]")
				x = &EStar{x}
				continue
			}
			var lo, hi Expr
			if p.isOp(":") {
				p.next()
				if !p.isOp("]") {
					hi = p.expr()
				}
				p.expect("]")
				x = &ESlice{x, nil, hi}
				continue
			}
			lo = p.expr()
			if p.accept(":") {
				if !p.isOp("]") {
					hi = p.expr()
				}
				p.expect("]")
				x = &ESlice{x, lo, hi}
				continue
			}
			p.expect("]")
			x = &EIndex{x, lo}
		default:
			return x
		}
	}
}
func (p *parser) primary() Expr {
	t := p.next()
	switch t.kind {
	case "int":
		v := new(big.Int)
		if _, ok := v.SetString(t.text, 0); !ok {
			p.fail("bad integer %q", t.text)
		}
		return &EInt{v}
	case "real":
		return &EReal{t.text}
	case "str":
		return &EStr{t.text}
	case "id":
		switch t.text {
		case "true":
			return &EBool{true}
		case "false":
			return &EBool{false}
		case "nil":
			return &ENil{}
		}
		name := t.text
		// qualified function name pkg.Func( ... handled as selector then call? keep simple: ident call only
		if p.isOp("(") {
			p.next()
			var args []Expr
			if !p.isOp(")") {
				for {
					args = append(args, p.expr())
					if !p.accept(",") {
						break
					}
				}
			}
			p.expect(")")
			if name == "ite" {
				if len(args) != 3 {
					p.fail("ite needs 3 arguments")
				}
				return &EIte{args[0], args[1], args[2]}
			}
			return &ECall{name, args}
		}
		return &EIdent{name}
	case "op":
		if t.text == "(" {
			e := p.expr()
			p.expect(")")
			return e
		}
	}
	p.fail("unexpected %q", t.text)
	return nil
}

// ---------- contract files ----------

type Clause struct {
	Name  string   // optional label
	Props []string // optional property override
	Src   string
	E     Expr
	Line  int
	File  string
}

type LoopSpec struct {
	Ordinal    int
	Invariants []*Clause
	Modifies   []*Clause
	Decreases  *Clause
	Hints      []*Clause
	Applies    []*Clause
}

type Contract struct {
	Key       string // function key, e.g. (*RingBuffer).Read
	Extern    bool
	Pure      bool // extern: modifies nothing
	Trusted   bool // body not verified (contract assumed)
	Props     []string
	Requires  []*Clause
	Ensures   []*Clause
	Modifies  []*Clause
	HasMod    bool
	Loops     map[int]*LoopSpec
	PanicsIf  []*Clause
	Arith     string
	Opts      map[string]string
	File      string
	Line      int
	Ghost     []*GhostStmt
	Lemmas    []string
	NoSafety  bool
	Results   []string // optional result names override
	Assumes   []*Clause // assumptions at entry, listed in evidence
	Uses      []string
	Hints     []*Clause // proved at exit before the postconditions, then assumed
	Applies   []*Clause // lemma instances over the entry state, assumed at entry (justified by the lemma's own proof)
	FreshRes  bool
	Cuts      []*Cut // assertions proved (then assumed) immediately before a call to a named callee
	Fresh     []QVar // skolem witnesses: fresh constants per call (callee side: ghost results chosen existentially are not supported; only for extern/trusted)
}

// Cut is an intermediate assertion attached to a call site: 'cut before <callee-name>: <label>: expr'.
type Cut struct {
	Callee string
	C      *Clause
}

type GhostStmt struct {
	At     string // entry, exit
	Src    string
	Target Expr
	Value  Expr
}

type Pred struct {
	Name   string
	Params []QVar
	Body   Expr
	Src    string
}

type Lemma struct {
	Name    string
	Vars    []QVar
	Body    Expr
	Assumed bool
	ByLean  bool // proved by the installed Lean (omega) instead of SMT
	Definition bool // definitional axiom of a spec function introduced with 'define' (conservative, not an assumption)
	Src     string
	Props   []string
}

// BoundedCheck is a bounded stand-in (a Go test injected with -overlay) for contracts that cannot be verified.
type BoundedCheck struct {
	Props []string
	Test  string
	Desc  string
}

type UFunc struct {
	Name   string
	Params []QVar
	Result string
}

type GhostField struct {
	Struct, Name, Type string
}

type SpecFile struct {
	PkgPath   string
	Contracts map[string]*Contract
	Order     []string
	Preds     map[string]*Pred
	Lemmas    []*Lemma
	Ghosts    []*GhostField
	GhostVars map[string]string // ghost global variables: name -> type (mathint, bool, intmap)
	UFuncs    map[string]*UFunc
	Bounded   []*BoundedCheck
}

func NewSpecFile(pkg string) *SpecFile {
	return &SpecFile{PkgPath: pkg, Contracts: map[string]*Contract{}, Preds: map[string]*Pred{}, UFuncs: map[string]*UFunc{}, GhostVars: map[string]string{}}
}

var clauseKeywords = map[string]bool{
	"func": true, "extern": true, "requires": true, "ensures": true, "modifies": true, "loop": true,
	"invariant": true, "decreases": true, "pred": true, "props": true, "arith": true, "pure": true,
	"trusted": true, "panics_if": true, "opt": true, "ghost": true, "lemma": true, "nosafety": true,
	"results": true, "assume": true, "end": true, "uses": true, "hint": true, "apply": true, "ufunc": true, "fresh": true, "define": true, "bounded": true, "defaxiom": true, "cut": true,
}

// ParseSpecText parses the //@ lines of one file into sf.
func (sf *SpecFile) ParseSpecText(file, text string) error {
	type rawClause struct {
		kw   string
		rest string
		line int
	}
	var raws []rawClause
	for i, ln := range strings.Split(text, "\n") {
		t := strings.TrimSpace(ln)
		if !strings.HasPrefix(t, "//@") {
			continue
		}
		body := strings.TrimSpace(t[3:])
		if body == "" || strings.HasPrefix(body, "#") {
			continue
		}
		// strip trailing comment " ## ..."
		if k := strings.Index(body, " ## "); k >= 0 {
			body = strings.TrimSpace(body[:k])
		}
		kw := body
		rest := ""
		if k := strings.IndexAny(body, " \t"); k >= 0 {
			kw, rest = body[:k], strings.TrimSpace(body[k+1:])
		}
		if clauseKeywords[kw] {
			raws = append(raws, rawClause{kw, rest, i + 1})
		} else {
			if len(raws) == 0 {
				return fmt.Errorf("%s:%d: continuation line without a clause", file, i+1)
			}
			raws[len(raws)-1].rest += " " + body
		}
	}
	var cur *Contract
	var curLoop *LoopSpec
	mkClause := func(rc rawClause) (*Clause, error) {
		c := &Clause{Src: rc.rest, Line: rc.line, File: file}
		s := rc.rest
		// optional [C01,C02]
		if strings.HasPrefix(s, "[") {
			k := strings.Index(s, "]")
			inner := s[1:k]
			ok := true
			for _, f := range strings.Split(inner, ",") {
				f = strings.TrimSpace(f)
				if len(f) < 2 || f[0] != 'C' {
					ok = false
				}
			}
			if ok {
				for _, f := range strings.Split(inner, ",") {
					c.Props = append(c.Props, strings.TrimSpace(f))
				}
				s = strings.TrimSpace(s[k+1:])
			}
		}
		// optional label:  name: expr   (name is identifier-ish, followed by ': ' and not '::')
		if k := strings.Index(s, ":"); k > 0 && !strings.HasPrefix(s[k:], "::") {
			lab := s[:k]
			isLab := true
			for _, r := range lab {
				if !(unicode.IsLetter(r) || unicode.IsDigit(r) || r == '_' || r == '-') {
					isLab = false
				}
			}
			if isLab {
				c.Name = lab
				s = strings.TrimSpace(s[k+1:])
			}
		}
		c.Src = s
		e, err := ParseExpr(s)
		if err != nil {
			return nil, fmt.Errorf("%s:%d: %v", file, rc.line, err)
		}
		c.E = e
		return c, nil
	}
	for _, rc := range raws {
		switch rc.kw {
		case "func", "extern":
			key := rc.rest
			ext := rc.kw == "extern"
			if ext {
				key = strings.TrimSpace(strings.TrimPrefix(key, "func"))
			}
			if _, dup := sf.Contracts[key]; dup {
				return fmt.Errorf("%s:%d: duplicate contract for %s", file, rc.line, key)
			}
			cur = &Contract{Key: key, Extern: ext, Loops: map[int]*LoopSpec{}, Opts: map[string]string{}, File: file, Line: rc.line}
			sf.Contracts[key] = cur
			sf.Order = append(sf.Order, key)
			curLoop = nil
		case "end":
			cur, curLoop = nil, nil
		case "pred":
			// pred Name(a T, b U) := expr
			k := strings.Index(rc.rest, ":=")
			if k < 0 {
				return fmt.Errorf("%s:%d: pred needs :=", file, rc.line)
			}
			head, body := strings.TrimSpace(rc.rest[:k]), strings.TrimSpace(rc.rest[k+2:])
			op := strings.Index(head, "(")
			if op < 0 || !strings.HasSuffix(head, ")") {
				return fmt.Errorf("%s:%d: bad pred head", file, rc.line)
			}
			pr := &Pred{Name: strings.TrimSpace(head[:op]), Src: body}
			ps := strings.TrimSpace(head[op+1 : len(head)-1])
			if ps != "" {
				for _, a := range strings.Split(ps, ",") {
					f := strings.Fields(a)
					if len(f) != 2 {
						return fmt.Errorf("%s:%d: bad pred parameter %q", file, rc.line, a)
					}
					pr.Params = append(pr.Params, QVar{f[0], f[1]})
				}
			}
			e, err := ParseExpr(body)
			if err != nil {
				return fmt.Errorf("%s:%d: %v", file, rc.line, err)
			}
			pr.Body = e
			if _, dup := sf.Preds[pr.Name]; dup {
				return fmt.Errorf("%s:%d: predicate %s is defined twice in this package's contract files", file, rc.line, pr.Name)
			}
			sf.Preds[pr.Name] = pr
		case "ufunc":
			// ufunc name(a T, b U) R
			op := strings.Index(rc.rest, "(")
			cl := strings.LastIndex(rc.rest, ")")
			if op < 0 || cl < op {
				return fmt.Errorf("%s:%d: bad ufunc", file, rc.line)
			}
			uf := &UFunc{Name: strings.TrimSpace(rc.rest[:op]), Result: strings.TrimSpace(rc.rest[cl+1:])}
			ps := strings.TrimSpace(rc.rest[op+1 : cl])
			if ps != "" {
				for _, a := range strings.Split(ps, ",") {
					f := strings.Fields(a)
					if len(f) != 2 {
						return fmt.Errorf("%s:%d: bad ufunc parameter %q", file, rc.line, a)
					}
					uf.Params = append(uf.Params, QVar{f[0], f[1]})
				}
			}
			sf.UFuncs[uf.Name] = uf
		case "bounded":
			// bounded C14 C05 TestName : description
			desc := ""
			rest := rc.rest
			if k := strings.Index(rest, ":"); k >= 0 {
				desc = strings.TrimSpace(rest[k+1:])
				rest = rest[:k]
			}
			bc := &BoundedCheck{Desc: desc}
			for _, f := range strings.Fields(rest) {
				if len(f) >= 3 && f[0] == 'C' && f[1] >= '0' && f[1] <= '9' {
					bc.Props = append(bc.Props, f)
				} else {
					bc.Test = f
				}
			}
			if bc.Test == "" {
				return fmt.Errorf("%s:%d: bounded needs a test name", file, rc.line)
			}
			sf.Bounded = append(sf.Bounded, bc)
		case "define":
			// define name(a T, b U) R := body   -- an opaque spec function; its definition is available to a
			// function's proof only on request (uses name)
			k := strings.Index(rc.rest, ":=")
			if k < 0 {
				return fmt.Errorf("%s:%d: define needs :=", file, rc.line)
			}
			head, body := strings.TrimSpace(rc.rest[:k]), strings.TrimSpace(rc.rest[k+2:])
			op := strings.Index(head, "(")
			cl := strings.LastIndex(head, ")")
			if op < 0 || cl < op {
				return fmt.Errorf("%s:%d: bad define head", file, rc.line)
			}
			uf := &UFunc{Name: strings.TrimSpace(head[:op]), Result: strings.TrimSpace(head[cl+1:])}
			var names []string
			var binds []string
			ps := strings.TrimSpace(head[op+1 : cl])
			if ps != "" {
				for _, a := range strings.Split(ps, ",") {
					f := strings.Fields(a)
					if len(f) != 2 {
						return fmt.Errorf("%s:%d: bad define parameter %q", file, rc.line, a)
					}
					uf.Params = append(uf.Params, QVar{f[0], f[1]})
					names = append(names, f[0])
					binds = append(binds, f[0]+" "+f[1])
				}
			}
			sf.UFuncs[uf.Name] = uf
			app := uf.Name + "(" + strings.Join(names, ", ") + ")"
			src := "forall " + strings.Join(binds, ", ") + " :: {" + app + "} " + app + " == (" + body + ")"
			e, err := ParseExpr(src)
			if err != nil {
				return fmt.Errorf("%s:%d: %v", file, rc.line, err)
			}
			sf.Lemmas = append(sf.Lemmas, &Lemma{Name: uf.Name + "_def", Src: src, Body: e, Assumed: true, Definition: true})
		case "defaxiom":
			// defaxiom name: forall ... :: body   -- a defining equation of an uninterpreted spec function (conservative
			// by construction: recursive definitions on a well-founded argument); used through apply / uses like a lemma
			k := strings.Index(rc.rest, ":")
			if k < 0 {
				return fmt.Errorf("%s:%d: defaxiom needs name:", file, rc.line)
			}
			lm := &Lemma{Name: strings.TrimSpace(rc.rest[:k]), Src: strings.TrimSpace(rc.rest[k+1:]), Assumed: true, Definition: true}
			e, err := ParseExpr(lm.Src)
			if err != nil {
				return fmt.Errorf("%s:%d: %v", file, rc.line, err)
			}
			lm.Body = e
			sf.Lemmas = append(sf.Lemmas, lm)
		case "lemma":
			// lemma name [assumed] : forall ... :: body
			k := strings.Index(rc.rest, ":")
			if k < 0 {
				return fmt.Errorf("%s:%d: lemma needs name:", file, rc.line)
			}
			head := strings.Fields(rc.rest[:k])
			lm := &Lemma{Name: head[0], Src: strings.TrimSpace(rc.rest[k+1:])}
			for _, h := range head[1:] {
				if h == "assumed" {
					lm.Assumed = true
				} else if h == "lean" {
					lm.ByLean = true
				} else if strings.HasPrefix(h, "C") {
					lm.Props = append(lm.Props, h)
				}
			}
			e, err := ParseExpr(lm.Src)
			if err != nil {
				return fmt.Errorf("%s:%d: %v", file, rc.line, err)
			}
			lm.Body = e
			sf.Lemmas = append(sf.Lemmas, lm)
		case "ghost":
			f := strings.Fields(rc.rest)
			if len(f) >= 3 && f[0] == "var" {
				// ghost var name type : a ghost global variable
				sf.GhostVars[f[1]] = f[2]
			} else if len(f) >= 3 && f[0] == "field" {
				// ghost field Struct.name Type
				ld := strings.LastIndex(f[1], ".")
				if ld <= 0 {
					return fmt.Errorf("%s:%d: ghost field Struct.name Type", file, rc.line)
				}
				sf.Ghosts = append(sf.Ghosts, &GhostField{f[1][:ld], f[1][ld+1:], f[2]})
			} else if cur != nil {
				// ghost <point>: target := expr
				k := strings.Index(rc.rest, ":")
				k2 := strings.Index(rc.rest, ":=")
				if k < 0 || k2 < 0 || k >= k2 {
					return fmt.Errorf("%s:%d: ghost <point>: target := expr", file, rc.line)
				}
				gs := &GhostStmt{At: strings.TrimSpace(rc.rest[:k]), Src: rc.rest}
				var err error
				if gs.Target, err = ParseExpr(strings.TrimSpace(rc.rest[k+1 : k2])); err != nil {
					return fmt.Errorf("%s:%d: %v", file, rc.line, err)
				}
				if gs.Value, err = ParseExpr(strings.TrimSpace(rc.rest[k2+2:])); err != nil {
					return fmt.Errorf("%s:%d: %v", file, rc.line, err)
				}
				cur.Ghost = append(cur.Ghost, gs)
			}
		default:
			if cur == nil {
				return fmt.Errorf("%s:%d: clause %q outside a func block", file, rc.line, rc.kw)
			}
			switch rc.kw {
			case "cut":
				// cut before <callee>: [label:] expr
				rest := strings.TrimSpace(rc.rest)
				if !strings.HasPrefix(rest, "before ") {
					return fmt.Errorf("%s:%d: cut before <callee>: expr", file, rc.line)
				}
				rest = strings.TrimSpace(strings.TrimPrefix(rest, "before "))
				k := strings.Index(rest, ":")
				if k < 0 {
					return fmt.Errorf("%s:%d: cut before <callee>: expr", file, rc.line)
				}
				callee := strings.TrimSpace(rest[:k])
				c, err := mkClause(rawClause{"cut", strings.TrimSpace(rest[k+1:]), rc.line})
				if err != nil {
					return err
				}
				cur.Cuts = append(cur.Cuts, &Cut{Callee: callee, C: c})
			case "fresh":
				f := strings.Fields(rc.rest)
				if len(f) != 2 {
					return fmt.Errorf("%s:%d: fresh <name> <type>", file, rc.line)
				}
				cur.Fresh = append(cur.Fresh, QVar{f[0], f[1]})
			case "props":
				cur.Props = append(cur.Props, strings.Fields(strings.ReplaceAll(rc.rest, ",", " "))...)
			case "uses":
				cur.Uses = append(cur.Uses, strings.Fields(strings.ReplaceAll(rc.rest, ",", " "))...)
			case "arith":
				cur.Arith = rc.rest
			case "pure":
				cur.Pure = true
			case "trusted":
				cur.Trusted = true
			case "nosafety":
				cur.NoSafety = true
			case "results":
				cur.Results = strings.Fields(strings.ReplaceAll(rc.rest, ",", " "))
			case "opt":
				f := strings.Fields(rc.rest)
				if len(f) == 1 {
					cur.Opts[f[0]] = "true"
				} else if len(f) >= 2 {
					cur.Opts[f[0]] = strings.Join(f[1:], " ")
				}
			case "loop":
				var n int
				if _, err := fmt.Sscanf(rc.rest, "%d", &n); err != nil {
					return fmt.Errorf("%s:%d: loop needs an ordinal", file, rc.line)
				}
				curLoop = &LoopSpec{Ordinal: n}
				cur.Loops[n] = curLoop
			case "requires", "ensures", "invariant", "decreases", "panics_if", "assume", "hint", "apply":
				c, err := mkClause(rc)
				if err != nil {
					return err
				}
				switch rc.kw {
				case "requires":
					cur.Requires = append(cur.Requires, c)
				case "ensures":
					cur.Ensures = append(cur.Ensures, c)
				case "panics_if":
					cur.PanicsIf = append(cur.PanicsIf, c)
				case "assume":
					cur.Assumes = append(cur.Assumes, c)
				case "apply":
					if curLoop != nil {
						curLoop.Applies = append(curLoop.Applies, c)
					} else {
						cur.Applies = append(cur.Applies, c)
					}
				case "hint":
					if curLoop != nil {
						curLoop.Hints = append(curLoop.Hints, c)
					} else {
						cur.Hints = append(cur.Hints, c)
					}
				case "invariant":
					if curLoop == nil {
						return fmt.Errorf("%s:%d: invariant outside loop", file, rc.line)
					}
					curLoop.Invariants = append(curLoop.Invariants, c)
				case "decreases":
					if curLoop == nil {
						return fmt.Errorf("%s:%d: decreases outside loop", file, rc.line)
					}
					curLoop.Decreases = c
				}
			case "modifies":
				cur2 := &cur.Modifies
				if curLoop != nil {
					cur2 = &curLoop.Modifies
				} else {
					cur.HasMod = true
				}
				if strings.TrimSpace(rc.rest) == "" || strings.TrimSpace(rc.rest) == "nothing" {
					continue
				}
				for _, part := range splitTopLevel(rc.rest, ',') {
					c, err := mkClause(rawClause{rc.kw, strings.TrimSpace(part), rc.line})
					if err != nil {
						return err
					}
					*cur2 = append(*cur2, c)
				}
			}
		}
	}
	return nil
}

func splitTopLevel(s string, sep byte) []string {
	var out []string
	depth := 0
	last := 0
	for i := 0; i < len(s); i++ {
		switch s[i] {
		case '(', '[', '{':
			depth++
		case ')', ']', '}':
			depth--
		default:
			if s[i] == sep && depth == 0 {
				out = append(out, s[last:i])
				last = i + 1
			}
		}
	}
	out = append(out, s[last:])
	return out
}
