package vc

// Evaluation of spec expressions to SMT terms in a given program state.

import (
	"fmt"
	"go/constant"
	"os"
	"go/types"
	"math/big"
	"strings"

	"golang.org/x/tools/go/ssa"
)

type sval struct {
	bound bool // quantifier-bound or predicate-parameter binding: takes priority over program locals
	t    string
	typ  types.Type // Go type, nil when purely mathematical
	kind string     // "int" "bool" "real" "nil" "val" (typed value) "loc" (t is a ref to a struct of type typ)
}

type SpecCtx struct {
	g      *FuncGen
	st     *State
	old    *State
	pre    *State
	vars   map[string]sval
	locals bool
	at     *ssa.BasicBlock
	pkg    *types.Package
	spec   *SpecFile
	fn     *ssa.Function
	axioms *[]string // non-nil while inside a quantifier
	depth  int
	oldAlloc string
	neg    bool // true when the formula being translated is in assumed (negative) position
	callerEntry *State // set while checking a callee's precondition at a call site
}

type specErr struct{ msg string }

func (cx *SpecCtx) fail(f string, a ...interface{}) {
	if os.Getenv("DVC_DEBUG") != "" {
		panic(fmt.Sprintf(f, a...))
	}
	panic(specErr{fmt.Sprintf(f, a...)})
}

func (g *FuncGen) newSpecCtx(st, old *State) *SpecCtx {
	cx := &SpecCtx{g: g, st: st, old: old, vars: map[string]sval{}, pkg: g.fn.Pkg.Pkg, spec: g.spec, fn: g.fn}
	for _, p := range g.fn.Params {
		cx.vars[p.Name()] = sval{t: g.vals[p], typ: p.Type(), kind: "val"}
	}
	for on, p := range g.paramAlias {
		cx.vars[on] = sval{t: g.vals[p], typ: p.Type(), kind: "val"}
	}
	for _, p := range g.fn.FreeVars {
		// free variables are pointers to captured cells; expose the cell content by name
		cx.vars["&"+p.Name()] = sval{t: g.vals[p], typ: p.Type(), kind: "val"}
	}
	return cx
}

func (cx *SpecCtx) with(st *State) *SpecCtx {
	n := *cx
	n.st = st
	return &n
}

func (cx *SpecCtx) addAxioms(ax []string) {
	if cx.axioms != nil {
		*cx.axioms = append(*cx.axioms, ax...)
		return
	}
	cx.g.assumeAll(ax)
}

func (cx *SpecCtx) boolTerm(e Expr) string {
	v := cx.eval(e)
	if v.kind == "bool" || (v.typ != nil && isBool(v.typ)) {
		return v.t
	}
	cx.fail("expected boolean expression: %s", e)
	return ""
}

// assumeTerm translates a formula that will be assumed (negative polarity).
func (cx *SpecCtx) assumeTerm(e Expr) string {
	n := *cx
	n.neg = true
	return n.boolTerm(e)
}

func (cx *SpecCtx) flip() *SpecCtx {
	n := *cx
	n.neg = !cx.neg
	return &n
}

// conjuncts translates a formula into its top-level conjuncts (expanding predicates), so that
// each can be discharged as a separate obligation.
func (cx *SpecCtx) conjuncts(e Expr) []string {
	switch x := e.(type) {
	case *EBinary:
		if x.Op == "&&" {
			return append(cx.conjuncts(x.X), cx.conjuncts(x.Y)...)
		}
	case *ECall:
		if cx.spec != nil {
			if p, ok := cx.lookupPred(x.Fun); ok && len(p.Params) == len(x.Args) && cx.depth < 40 {
				n := *cx
				n.vars = map[string]sval{}
				n.locals = false
				for i, prm := range p.Params {
					n.vars[prm.Name] = cx.eval(x.Args[i])
				}
				n.depth = cx.depth + 1
				return n.conjuncts(p.Body)
			}
		}
	}
	return []string{cx.boolTerm(e)}
}

func (cx *SpecCtx) intTerm(e Expr) string {
	v := cx.eval(e)
	if v.kind == "int" {
		return v.t
	}
	if v.typ != nil {
		if _, ok := isInt(v.typ); ok {
			return v.t
		}
	}
	cx.fail("expected integer expression: %s", e)
	return ""
}

func (cx *SpecCtx) sortOfVal(v sval) string {
	switch v.kind {
	case "int":
		return "Int"
	case "bool":
		return "Bool"
	case "real":
		return "Real"
	case "loc":
		return "Int"
	case "intmap":
		return "(Array Int Int)"
	case "intset":
		return "(Array Int Bool)"
	case "strmap":
		return "(Array Int Str)"
	case "realmap":
		return "(Array Int Real)"
	case "strint":
		return "(Array Str Int)"
	case "strstr":
		return "(Array Str Str)"
	case "strset":
		return "(Array Str Bool)"
	case "strany":
		return "(Array Str Iface)"
	}
	if v.typ != nil {
		return cx.g.sc.sortOf(v.typ)
	}
	return "Int"
}

// asValue turns a located struct into a struct value.
func (cx *SpecCtx) asValue(v sval) sval {
	if v.kind == "loc" {
		saveGuard := cx.g.guard
		t := cx.loadStructSpec(v.t, v.typ)
		cx.g.guard = saveGuard
		return sval{t: t, typ: v.typ, kind: "val"}
	}
	return v
}

func (cx *SpecCtx) loadStructSpec(ref string, t types.Type) string {
	g := cx.g
	s, _ := isStruct(t)
	var fs []string
	for i := 0; i < s.NumFields(); i++ {
		ft := s.Field(i).Type()
		if _, ok := isStruct(ft); ok {
			r, ax := g.sc.fldRef(t, i, ref)
			cx.addAxioms(ax)
			fs = append(fs, cx.loadStructSpec(r, ft))
		} else {
			fs = append(fs, fmt.Sprintf("(select %s %s)", g.get(cx.st, g.sc.fieldCompReg(t, i)), ref))
		}
	}
	return g.sc.mkStruct(t, fs)
}

func (cx *SpecCtx) resolveType(s string) types.Type {
	s = strings.TrimSpace(s)
	switch s {
	case "mathint", "Int":
		return nil
	}
	if strings.HasPrefix(s, "*") {
		return types.NewPointer(cx.resolveType(s[1:]))
	}
	if strings.HasPrefix(s, "[]") {
		return types.NewSlice(cx.resolveType(s[2:]))
	}
	if i := strings.Index(s, "."); i >= 0 {
		pn, tn := s[:i], s[i+1:]
		for _, imp := range cx.pkg.Imports() {
			if imp.Name() == pn {
				if o := imp.Scope().Lookup(tn); o != nil {
					return o.Type()
				}
			}
		}
		// any loaded package with that name
		for _, p := range cx.g.env.allPkgs {
			if p.Name() == pn {
				if o := p.Scope().Lookup(tn); o != nil {
					return o.Type()
				}
			}
		}
		cx.fail("unknown type %s", s)
	}
	if o := types.Universe.Lookup(s); o != nil {
		if tn, ok := o.(*types.TypeName); ok {
			return tn.Type()
		}
	}
	if o := cx.pkg.Scope().Lookup(s); o != nil {
		if tn, ok := o.(*types.TypeName); ok {
			return tn.Type()
		}
	}
	cx.fail("unknown type %s", s)
	return nil
}

func mathKindOf(t types.Type) string {
	if t == nil {
		return "int"
	}
	if _, ok := isInt(t); ok {
		return "int"
	}
	if isFloat(t) {
		return "real"
	}
	if isBool(t) {
		return "bool"
	}
	return "val"
}

// norm normalises a typed scalar to its mathematical kind.
func norm(v sval) sval {
	if v.kind == "val" && v.typ != nil {
		k := mathKindOf(v.typ)
		if k != "val" {
			return sval{t: v.t, typ: v.typ, kind: k}
		}
	}
	return v
}

func (cx *SpecCtx) lookupLocal(name string) (sval, bool) {
	g := cx.g
	// rangeindexN: the hidden index variable of the range loop with ordinal N
	if strings.HasPrefix(name, "rangeindex") && len(name) > len("rangeindex") {
		var n int
		if _, err := fmt.Sscanf(name[len("rangeindex"):], "%d", &n); err == nil {
			for _, l := range g.loops {
				if l.ordinal != n {
					continue
				}
				for _, a := range g.cellName["rangeindex"] {
					for _, in := range l.header.Instrs {
						if st, ok := in.(*ssa.Store); ok && st.Addr == ssa.Value(a) {
							key := g.cellOf[a]
							return norm(sval{t: g.get(cx.st, key), typ: g.cellType[key], kind: "val"}), true
						}
					}
				}
			}
		}
	}
	allocs := g.cellName[name]
	if len(allocs) == 0 {
		// a named local that lives on the heap (escaping / captured variable)
		for _, a := range g.heapLocals[name] {
			ref, ok := g.vals[a]
			if !ok {
				continue
			}
			pt := deref(a.Type())
			if _, isS := isStruct(pt); isS {
				return sval{t: ref, typ: pt, kind: "loc"}, true
			}
			return norm(sval{t: fmt.Sprintf("(select %s %s)", g.get(cx.st, g.sc.cellComp(pt)), ref), typ: pt, kind: "val"}), true
		}
		return sval{}, false
	}
	pick := allocs[0]
	if len(allocs) > 1 && cx.at != nil {
		// prefer the unique candidate that the enclosing loop modifies (hidden range variables)
		if l, ok := g.loops[cx.at.Index]; ok {
			var inLoop []*ssa.Alloc
			for _, a := range allocs {
				if l.modified[g.cellOf[a]] {
					// exclude cells modified only by nested loops headed elsewhere? keep simple
					inLoop = append(inLoop, a)
				}
			}
			if len(inLoop) == 1 {
				key := g.cellOf[inLoop[0]]
				return norm(sval{t: g.get(cx.st, key), typ: g.cellType[key], kind: "val"}), true
			}
			if len(inLoop) > 1 && name == "rangeindex" {
				// the loop's own range index is the one stored in the header block
				for _, a := range inLoop {
					for _, in := range cx.at.Instrs {
						if st, ok := in.(*ssa.Store); ok && st.Addr == ssa.Value(a) {
							key := g.cellOf[a]
							return norm(sval{t: g.get(cx.st, key), typ: g.cellType[key], kind: "val"}), true
						}
					}
				}
			}
		}
		// prefer the candidates declared in blocks that dominate this point; among them the innermost
		{
			var dom []*ssa.Alloc
			for _, a := range allocs {
				if a.Block() == cx.at || a.Block().Dominates(cx.at) {
					dom = append(dom, a)
				}
			}
			if len(dom) >= 1 {
				best := dom[0]
				for _, a := range dom[1:] {
					if best.Block().Dominates(a.Block()) && best.Block() != a.Block() {
						best = a
					} else if best.Block() == a.Block() && a.Pos() > best.Pos() {
						best = a
					}
				}
				distinctBlocks := map[*ssa.BasicBlock]bool{}
				for _, a := range dom {
					distinctBlocks[a.Block()] = true
				}
				if len(dom) == 1 || len(distinctBlocks) > 1 {
					key := g.cellOf[best]
					return norm(sval{t: g.get(cx.st, key), typ: g.cellType[key], kind: "val"}), true
				}
			}
		}
		// choose by lexical scope at the loop header position
		var pos = cx.at.Instrs[0].Pos()
		for _, in := range cx.at.Instrs {
			if in.Pos().IsValid() {
				pos = in.Pos()
				break
			}
		}
		if !pos.IsValid() {
			// header without positions (range loops): use the earliest position in the loop body
			if l, ok := g.loops[cx.at.Index]; ok {
				for _, b := range g.fn.Blocks {
					if !l.body[b.Index] {
						continue
					}
					for _, in := range b.Instrs {
						if _, isAlloc := in.(*ssa.Alloc); isAlloc {
							continue
						}
						if in.Pos().IsValid() && (!pos.IsValid() || in.Pos() < pos) {
							pos = in.Pos()
						}
					}
				}
			}
		}
		best := -1
		for i, a := range allocs {
			// prefer the latest declaration not after pos whose cell is live in the state
			if a.Pos().IsValid() && a.Pos() <= pos {
				if best < 0 || a.Pos() > allocs[best].Pos() {
					best = i
				}
			}
		}
		if best >= 0 {
			pick = allocs[best]
		}
	}
	key := g.cellOf[pick]
	return norm(sval{t: g.get(cx.st, key), typ: g.cellType[key], kind: "val"}), true
}

func (cx *SpecCtx) eval(e Expr) sval {
	g := cx.g
	switch x := e.(type) {
	case *EInt:
		return sval{t: smtInt(x.Val), kind: "int"}
	case *EReal:
		return sval{t: x.Text, kind: "real"}
	case *EBool:
		if x.Val {
			return sval{t: "true", kind: "bool"}
		}
		return sval{t: "false", kind: "bool"}
	case *ENil:
		return sval{t: "0", kind: "nil"}
	case *EStr:
		return sval{t: g.sc.strConst(x.Val), typ: types.Typ[types.String], kind: "val"}
	case *EIdent:
		if v, ok := cx.vars[x.Name]; ok && v.bound {
			return norm(v)
		}
		if cx.locals {
			// inside the function body (loop invariants, hints) a name denotes the current value of the
			// variable, also for parameters (which are mutable); old(x) gives a parameter's entry value
			if v, ok := cx.lookupLocal(x.Name); ok {
				return v
			}
		}
		if v, ok := cx.vars[x.Name]; ok {
			return norm(v)
		}
		// captured variable of a closure: content of the cell
		if v, ok := cx.vars["&"+x.Name]; ok {
			pt := deref(v.typ)
			if _, isS := isStruct(pt); isS {
				return sval{t: v.t, typ: pt, kind: "loc"}
			}
			return norm(sval{t: fmt.Sprintf("(select %s %s)", g.get(cx.st, g.sc.cellComp(pt)), v.t), typ: pt, kind: "val"})
		}
		if key, kind, ok := cx.g.ghostVar(x.Name); ok {
			return sval{t: g.get(cx.st, key), kind: kind}
		}
		if o := cx.pkg.Scope().Lookup(x.Name); o != nil {
			switch c := o.(type) {
			case *types.Const:
				if c.Val().Kind() == constant.Int {
					b, _ := new(big.Int).SetString(c.Val().ExactString(), 10)
					return sval{t: smtInt(b), typ: c.Type(), kind: "int"}
				}
				if c.Val().Kind() == constant.Bool {
					return sval{t: fmt.Sprint(constant.BoolVal(c.Val())), kind: "bool"}
				}
				if c.Val().Kind() == constant.Float {
					return sval{t: realConst(c.Val()), kind: "real"}
				}
				if c.Val().Kind() == constant.String {
					return sval{t: g.sc.strConst(constant.StringVal(c.Val())), typ: types.Typ[types.String], kind: "val"}
				}
			case *types.Var:
				key := "G:" + cx.pkg.Path() + "." + x.Name
				if _, ok := g.cellSort[key]; !ok {
					g.cellSort[key] = g.sc.sortOf(c.Type())
					g.cellType[key] = c.Type()
				}
				return norm(sval{t: g.get(cx.st, key), typ: c.Type(), kind: "val"})
			}
		}
		cx.fail("unknown identifier %q", x.Name)
	case *EUnary:
		if x.Op == "!" {
			v := cx.flip().eval(x.X)
			return sval{t: fmt.Sprintf("(not %s)", v.t), kind: "bool"}
		}
		v := cx.eval(x.X)
		switch x.Op {
		case "*":
			// pointer dereference
			if v.typ == nil {
				cx.fail("dereference of untyped value %s", x.X)
			}
			pt := deref(v.typ)
			if pt == nil {
				cx.fail("dereference of non-pointer %s", x.X)
			}
			if _, isS := isStruct(pt); isS {
				return sval{t: v.t, typ: pt, kind: "loc"}
			}
			return norm(sval{t: fmt.Sprintf("(select %s %s)", g.get(cx.st, g.sc.cellComp(pt)), v.t), typ: pt, kind: "val"})
		case "!":
			return sval{t: fmt.Sprintf("(not %s)", v.t), kind: "bool"}
		case "-":
			if v.kind == "real" {
				return sval{t: fmt.Sprintf("(- %s)", v.t), kind: "real"}
			}
			return sval{t: fmt.Sprintf("(- %s)", v.t), kind: "int"}
		}
		cx.fail("unary %s unsupported", x.Op)
	case *EBinary:
		return cx.evalBinary(x)
	case *EIte:
		c := cx.boolTerm(x.C)
		a, b := cx.eval(x.A), cx.eval(x.B)
		a, b = cx.unify(a, b)
		r := a
		r.t = fmt.Sprintf("(ite %s %s %s)", c, a.t, b.t)
		return r
	case *EQuant:
		return cx.evalQuant(x)
	case *ESel:
		return cx.evalSel(x)
	case *EIndex:
		return cx.evalIndex(x)
	case *ESlice:
		s := cx.eval(x.X)
		lo, hi := "0", fmt.Sprintf("(s-len %s)", s.t)
		if x.Lo != nil {
			lo = cx.intTerm(x.Lo)
		}
		if x.Hi != nil {
			hi = cx.intTerm(x.Hi)
		}
		return sval{t: fmt.Sprintf("(mk-slice (s-arr %s) (+ (s-off %s) %s) (- %s %s) (- (s-cap %s) %s))", s.t, s.t, lo, hi, lo, s.t, lo), typ: s.typ, kind: "val"}
	case *ECall:
		return cx.evalCall(x)
	case *EStar:
		cx.fail("[*] / .* only allowed in modifies clauses")
	}
	cx.fail("cannot evaluate %T", e)
	return sval{}
}

func (cx *SpecCtx) unify(a, b sval) (sval, sval) {
	a, b = norm(a), norm(b)
	if a.kind == "real" && b.kind == "int" {
		b = sval{t: fmt.Sprintf("(to_real %s)", b.t), kind: "real"}
	}
	if b.kind == "real" && a.kind == "int" {
		a = sval{t: fmt.Sprintf("(to_real %s)", a.t), kind: "real"}
	}
	if a.kind == "nil" && b.kind != "nil" {
		a = cx.nilOf(b)
	}
	if b.kind == "nil" && a.kind != "nil" {
		b = cx.nilOf(a)
	}
	if a.kind == "loc" && b.kind == "val" {
		a = cx.asValue(a)
	}
	if b.kind == "loc" && a.kind == "val" {
		b = cx.asValue(b)
	}
	return a, b
}

func (cx *SpecCtx) nilOf(v sval) sval {
	if v.typ != nil {
		return sval{t: cx.g.sc.zero(v.typ), typ: v.typ, kind: v.kind}
	}
	return sval{t: "0", kind: "int"}
}

func (cx *SpecCtx) evalBinary(x *EBinary) sval {
	switch x.Op {
	case "&&", "||", "==>", "<==>":
		var a string
		if x.Op == "==>" {
			a = cx.flip().boolTerm(x.X)
		} else {
			a = cx.boolTerm(x.X)
		}
		b := cx.boolTerm(x.Y)
		op := map[string]string{"&&": "and", "||": "or", "==>": "=>", "<==>": "="}[x.Op]
		return sval{t: fmt.Sprintf("(%s %s %s)", op, a, b), kind: "bool"}
	}
	a, b := cx.eval(x.X), cx.eval(x.Y)
	switch x.Op {
	case "==", "!=":
		var eq string
		// nil comparisons on slices/interfaces
		if b.kind == "nil" || a.kind == "nil" {
			o := a
			if a.kind == "nil" {
				o = b
			}
			if o.typ != nil {
				switch o.typ.Underlying().(type) {
				case *types.Slice:
					eq = fmt.Sprintf("(= (s-arr %s) 0)", o.t)
				case *types.Interface:
					eq = fmt.Sprintf("(= (i-typ %s) 0)", o.t)
				}
			}
			if eq == "" {
				eq = fmt.Sprintf("(= %s 0)", o.t)
			}
		} else {
			if a.kind == "loc" && b.kind == "loc" {
				a, b = cx.asValue(a), cx.asValue(b)
			}
			a, b = cx.unify(a, b)
			eq = fmt.Sprintf("(= %s %s)", a.t, b.t)
		}
		if x.Op == "!=" {
			eq = fmt.Sprintf("(not %s)", eq)
		}
		return sval{t: eq, kind: "bool"}
	case "<", "<=", ">", ">=":
		a, b = cx.unify(a, b)
		return sval{t: fmt.Sprintf("(%s %s %s)", x.Op, a.t, b.t), kind: "bool"}
	case "+", "-", "*":
		a, b = cx.unify(a, b)
		if x.Op == "+" && a.typ != nil && b.typ != nil && isString(a.typ) && isString(b.typ) {
			// string concatenation, same term as the code's
			cx.g.sc.declare("strcat", "(declare-fun strcat (Str Str) Str)")
			t := fmt.Sprintf("(strcat %s %s)", a.t, b.t)
			cx.addAxioms([]string{fmt.Sprintf("(= (strlen %s) (+ (strlen %s) (strlen %s)))", t, a.t, b.t)})
			return sval{t: t, typ: types.Typ[types.String], kind: "val"}
		}
		k := "int"
		if a.kind == "real" {
			k = "real"
		}
		return sval{t: fmt.Sprintf("(%s %s %s)", x.Op, a.t, b.t), kind: k}
	case "/":
		a, b = cx.unify(a, b)
		if a.kind == "real" {
			return sval{t: fmt.Sprintf("(/ %s %s)", a.t, b.t), kind: "real"}
		}
		if _, lit := x.Y.(*EInt); lit {
			return sval{t: fmt.Sprintf("(div %s %s)", a.t, b.t), kind: "int"}
		}
		cx.g.sc.divModDecls()
		return sval{t: fmt.Sprintf("(udiv %s %s)", a.t, b.t), kind: "int"}
	case "%":
		if _, lit := x.Y.(*EInt); lit {
			return sval{t: fmt.Sprintf("(mod %s %s)", a.t, b.t), kind: "int"}
		}
		cx.g.sc.divModDecls()
		return sval{t: fmt.Sprintf("(umod %s %s)", a.t, b.t), kind: "int"}
	case "<<":
		if c, ok := x.Y.(*EInt); ok {
			return sval{t: fmt.Sprintf("(* %s %s)", a.t, pow2(int(c.Val.Int64()))), kind: "int"}
		}
		return sval{t: fmt.Sprintf("(shl %s %s)", a.t, b.t), kind: "int"}
	case ">>":
		if c, ok := x.Y.(*EInt); ok {
			return sval{t: fmt.Sprintf("(div %s %s)", a.t, pow2(int(c.Val.Int64()))), kind: "int"}
		}
		return sval{t: fmt.Sprintf("(shr %s %s)", a.t, b.t), kind: "int"}
	case "&":
		if c, ok := x.Y.(*EInt); ok {
			if k, ok := isPow2Minus1(c.Val); ok {
				return sval{t: fmt.Sprintf("(mod %s %s)", a.t, pow2(k)), kind: "int"}
			}
		}
		return sval{t: fmt.Sprintf("(bitand %s %s)", a.t, b.t), kind: "int"}
	case "|":
		return sval{t: fmt.Sprintf("(bitor %s %s)", a.t, b.t), kind: "int"}
	case "^":
		return sval{t: fmt.Sprintf("(bitxor %s %s)", a.t, b.t), kind: "int"}
	}
	cx.fail("binary %s unsupported", x.Op)
	return sval{}
}

func (cx *SpecCtx) evalQuant(x *EQuant) sval {
	n := *cx
	n.vars = map[string]sval{}
	for k, v := range cx.vars {
		n.vars[k] = v
	}
	var ax []string
	n.axioms = &ax
	var binds []string
	var ranges []string
	for _, qv := range x.Vars {
		if qv.Type == "realmap" || qv.Type == "real" || qv.Type == "intmap" {
			cx.depth++
			name := fmt.Sprintf("%s!q%d", qv.Name, cx.g.sc.counter)
			cx.g.sc.counter++
			srt := map[string]string{"realmap": "(Array Int Real)", "real": "Real", "intmap": "(Array Int Int)"}[qv.Type]
			binds = append(binds, fmt.Sprintf("(%s %s)", name, srt))
			n.vars[qv.Name] = sval{t: name, kind: qv.Type, bound: true}
			continue
		}
		t := cx.resolveType(qv.Type)
		cx.depth++
		name := fmt.Sprintf("%s!q%d", qv.Name, cx.g.sc.counter)
		cx.g.sc.counter++
		sort := "Int"
		kind := "int"
		if t != nil {
			sort = cx.g.sc.sortOf(t)
			kind = mathKindOf(t)
			if kind == "val" {
				// typed (non-scalar) bound variable
			}
		}
		binds = append(binds, fmt.Sprintf("(%s %s)", name, sort))
		n.vars[qv.Name] = sval{t: name, typ: t, kind: kind, bound: true}
		_ = ranges
	}
	cx.g.sc.Quant++
	defer func() { cx.g.sc.Quant-- }()
	body := n.boolTerm(x.Body)
	pats := ""
	if len(x.Pats) > 0 {
		var ps []string
		for _, p := range x.Pats {
			var ts []string
			for _, pe := range p {
				ts = append(ts, n.eval(pe).t)
			}
			ps = append(ps, ":pattern ("+strings.Join(ts, " ")+")")
		}
		pats = strings.Join(ps, " ")
	}
	if len(ax) > 0 {
		// ax are instances of valid axioms about uninterpreted functions: as hypotheses when the
		// formula is to be proved, as extra conjuncts when it is assumed
		if cx.neg {
			body = and(append(ax, body)...)
		} else {
			body = fmt.Sprintf("(=> %s %s)", and(ax...), body)
		}
	}
	// propagate axioms that do not mention bound variables? (none: keep local)
	qn := "exists"
	if x.Forall {
		qn = "forall"
	}
	if pats != "" {
		body = fmt.Sprintf("(! %s %s)", body, pats)
	}
	return sval{t: fmt.Sprintf("(%s (%s) %s)", qn, strings.Join(binds, " "), body), kind: "bool"}
}

// structOf returns (ref-or-value, struct type, isLoc) for a selector base.
func (cx *SpecCtx) structBase(v sval) (string, types.Type, bool) {
	if v.kind == "loc" {
		return v.t, v.typ, true
	}
	if v.typ == nil {
		cx.fail("selector on untyped value")
	}
	if pt := deref(v.typ); pt != nil {
		if _, ok := isStruct(pt); ok {
			return v.t, pt, true
		}
	}
	if _, ok := isStruct(v.typ); ok {
		return v.t, v.typ, false
	}
	cx.fail("selector on non-struct type %s", v.typ)
	return "", nil, false
}

func (cx *SpecCtx) evalSel(x *ESel) sval {
	g := cx.g
	// pkg.Var : a package-level variable of an imported package
	if id, ok := x.X.(*EIdent); ok {
		if _, isVar := cx.vars[id.Name]; !isVar && len(g.cellName[id.Name]) == 0 {
			for _, p := range g.env.allPkgs {
				if p.Name() == id.Name {
					if o, ok := p.Scope().Lookup(x.Field).(*types.Var); ok {
						key := "G:" + p.Path() + "." + x.Field
						if _, ok := g.cellSort[key]; !ok {
							g.cellSort[key] = g.sc.sortOf(o.Type())
							g.cellType[key] = o.Type()
						}
						return norm(sval{t: g.get(cx.st, key), typ: o.Type(), kind: "val"})
					}
				}
			}
		}
	}
	base := cx.eval(x.X)
	// pseudo-fields of slices
	if base.typ != nil {
		if _, ok := base.typ.Underlying().(*types.Slice); ok {
			switch x.Field {
			case "arr":
				return sval{t: fmt.Sprintf("(s-arr %s)", base.t), kind: "int"}
			case "off":
				return sval{t: fmt.Sprintf("(s-off %s)", base.t), kind: "int"}
			}
		}
		if _, ok := base.typ.Underlying().(*types.Interface); ok {
			switch x.Field {
			case "typ":
				return sval{t: fmt.Sprintf("(i-typ %s)", base.t), kind: "int"}
			}
		}
	}
	cur, st, isLoc := cx.structBase(base)
	// ghost field?
	if key, gt, special, ok := cx.ghostField(st, x.Field); ok {
		if !isLoc {
			cx.fail("ghost field on struct value")
		}
		sel := fmt.Sprintf("(select %s %s)", g.get(cx.st, key), cur)
		if special != "" {
			return sval{t: sel, kind: special}
		}
		return norm(sval{t: sel, typ: gt, kind: kindOfType(gt)})
	}
	obj, index, _ := types.LookupFieldOrMethod(st, true, cx.pkg, x.Field)
	fv, ok := obj.(*types.Var)
	if !ok || fv == nil {
		// try with the struct's own package (unexported fields of other packages)
		if named, ok2 := st.(*types.Named); ok2 && named.Obj().Pkg() != nil {
			obj, index, _ = types.LookupFieldOrMethod(st, true, named.Obj().Pkg(), x.Field)
			fv, ok = obj.(*types.Var)
		}
		if !ok || fv == nil {
			cx.fail("no field %s in %s", x.Field, st)
		}
	}
	t := st
	for _, fi := range index {
		s, ok := isStruct(t)
		if !ok {
			cx.fail("field path through non-struct %s", t)
		}
		ft := s.Field(fi).Type()
		if isLoc {
			if _, isS := isStruct(ft); isS {
				r, ax := g.sc.fldRef(t, fi, cur)
				cx.addAxioms(ax)
				cur, t = r, ft
				continue
			}
			val := fmt.Sprintf("(select %s %s)", g.get(cx.st, g.sc.fieldCompReg(t, fi)), cur)
			if pt := deref(ft); pt != nil {
				if _, isS := isStruct(pt); isS {
					// may continue through an embedded pointer
					cur, t, isLoc = val, pt, true
					// remember that the value itself is a pointer
					if fi == index[len(index)-1] {
						return sval{t: val, typ: ft, kind: "val"}
					}
					continue
				}
			}
			cur, t, isLoc = val, ft, false
		} else {
			cur = fmt.Sprintf("(%s %s)", g.sc.fieldSel(t, fi), cur)
			t = ft
			if pt := deref(ft); pt != nil && fi != index[len(index)-1] {
				if _, isS := isStruct(pt); isS {
					t, isLoc = pt, true
				}
			}
		}
	}
	if isLoc {
		if _, isS := isStruct(t); isS {
			return sval{t: cur, typ: t, kind: "loc"}
		}
	}
	return norm(sval{t: cur, typ: t, kind: "val"})
}

// ghostField resolves a ghost field declared for struct type st.
func (cx *SpecCtx) ghostField(st types.Type, name string) (key string, gt types.Type, special string, ok bool) {
	named, isNamed := st.(*types.Named)
	if !isNamed {
		return
	}
	for _, sf := range cx.g.env.Specs {
		for _, gf := range sf.Ghosts {
			local := named.Obj().Name() == gf.Struct && (named.Obj().Pkg() == nil || named.Obj().Pkg().Path() == sf.PkgPath)
			qualified := strings.Contains(gf.Struct, ".") && typeName(st) == gf.Struct
			if (local || qualified) && gf.Name == name {
				key = "H:" + typeName(st) + "." + gf.Name
				if gf.Type == "intmap" || gf.Type == "intset" || gf.Type == "strmap" || gf.Type == "realmap" {
					special = gf.Type
				} else {
					gt = cx.resolveType(gf.Type)
				}
				cx.g.env.regGhostComp(key, gt, special)
				return key, gt, special, true
			}
		}
	}
	return
}

func kindOfType(t types.Type) string {
	if t == nil {
		return "int"
	}
	return "val"
}

func (cx *SpecCtx) evalIndex(x *EIndex) sval {
	g := cx.g
	base := cx.eval(x.X)
	if base.kind == "intmap" {
		return sval{t: fmt.Sprintf("(select %s %s)", base.t, cx.intTerm(x.I)), kind: "int"}
	}
	if base.kind == "intset" {
		return sval{t: fmt.Sprintf("(select %s %s)", base.t, cx.intTerm(x.I)), kind: "bool"}
	}
	if base.kind == "realmap" {
		return sval{t: fmt.Sprintf("(select %s %s)", base.t, cx.intTerm(x.I)), kind: "real"}
	}
	if base.kind == "strmap" {
		return sval{t: fmt.Sprintf("(select %s %s)", base.t, cx.intTerm(x.I)), typ: types.Typ[types.String], kind: "val"}
	}
	if base.kind == "strint" || base.kind == "strstr" || base.kind == "strset" || base.kind == "strany" {
		k := cx.eval(x.I)
		if k.typ == nil || !isString(k.typ) {
			cx.fail("index of a string-keyed ghost map must be a string: %s", x.I)
		}
		sel := fmt.Sprintf("(select %s %s)", base.t, k.t)
		switch base.kind {
		case "strint":
			return sval{t: sel, kind: "int"}
		case "strset":
			return sval{t: sel, kind: "bool"}
		case "strany":
			return sval{t: sel, typ: types.NewInterfaceType(nil, nil), kind: "val"}
		}
		return sval{t: sel, typ: types.Typ[types.String], kind: "val"}
	}
	if base.typ == nil {
		cx.fail("index on untyped value %s", x.X)
	}
	switch u := base.typ.Underlying().(type) {
	case *types.Slice:
		idx := cx.intTerm(x.I)
		pos, fact := g.sc.sliceIdx(base.t, idx)
		cx.addAxioms([]string{fact})
		if _, ok := isStruct(u.Elem()); ok {
			r, ax := g.sc.elemRef(u.Elem(), fmt.Sprintf("(s-arr %s)", base.t), pos)
			cx.addAxioms(ax)
			return sval{t: r, typ: u.Elem(), kind: "loc"}
		}
		return norm(sval{t: fmt.Sprintf("(select (select %s (s-arr %s)) %s)", g.get(cx.st, g.sc.elemComp(u.Elem())), base.t, pos), typ: u.Elem(), kind: "val"})
	case *types.Map:
		k := cx.eval(x.I)
		_, val := g.sc.mapComps(u)
		return norm(sval{t: fmt.Sprintf("(select (select %s %s) %s)", g.get(cx.st, val), base.t, k.t), typ: u.Elem(), kind: "val"})
	case *types.Array:
		idx := cx.intTerm(x.I)
		return norm(sval{t: fmt.Sprintf("(select %s %s)", base.t, idx), typ: u.Elem(), kind: "val"})
	}
	cx.fail("index on %s", base.typ)
	return sval{}
}

func (cx *SpecCtx) evalCall(x *ECall) sval {
	g := cx.g
	arg := func(i int) sval {
		if i >= len(x.Args) {
			cx.fail("%s: missing argument %d", x.Fun, i)
		}
		return cx.eval(x.Args[i])
	}
	switch x.Fun {
	case "old":
		if cx.old == nil {
			cx.fail("old() not available here")
		}
		ocx := cx.with(cx.old)
		ocx.locals = false
		return ocx.asValue(ocx.eval(x.Args[0]))
	case "pre":
		if cx.pre == nil {
			cx.fail("pre() only in loop invariants")
		}
		pcx := cx.with(cx.pre)
		return pcx.asValue(pcx.eval(x.Args[0]))
	case "len":
		v := arg(0)
		if v.typ != nil {
			switch v.typ.Underlying().(type) {
			case *types.Slice:
				return sval{t: fmt.Sprintf("(s-len %s)", v.t), kind: "int"}
			case *types.Basic:
				return sval{t: fmt.Sprintf("(strlen %s)", v.t), kind: "int"}
			case *types.Array:
				return sval{t: fmt.Sprint(v.typ.Underlying().(*types.Array).Len()), kind: "int"}
			case *types.Map:
				mt := v.typ.Underlying().(*types.Map)
				dom, _ := g.sc.mapComps(mt)
				d := cx.stableTerm("(Array "+g.sc.sortOf(mt.Key())+" Bool)", fmt.Sprintf("(select %s %s)", g.get(cx.st, dom), v.t))
				t, facts := g.sc.mapLen(g.sc.sortOf(mt.Key()), d)
				cx.addAxioms(facts)
				// a nil map has length 0, as in the code
				return sval{t: fmt.Sprintf("(ite (= %s 0) 0 %s)", v.t, t), kind: "int"}
			}
		}
		cx.fail("len of %s", x.Args[0])
	case "card":
		v := arg(0)
		if v.kind != "intset" {
			cx.fail("card of non-set")
		}
		d := cx.stableTerm("(Array Int Bool)", v.t)
		t, facts := g.sc.mapLen("Int", d)
		cx.addAxioms(facts)
		return sval{t: t, kind: "int"}
	case "emptyset":
		d := "((as const (Array Int Bool)) false)"
		t, _ := g.sc.mapLen("Int", d)
		cx.addAxioms([]string{fmt.Sprintf("(= %s 0)", t)})
		return sval{t: d, kind: "intset"}
	case "upd": // upd(m, k, v): the ghost map m with key k set to v
		m, k, v := arg(0), arg(1), arg(2)
		switch m.kind {
		case "intmap", "intset", "realmap", "strmap", "strint", "strstr", "strset", "strany":
		default:
			cx.fail("upd on a non-map %s", x.Args[0])
		}
		return sval{t: fmt.Sprintf("(store %s %s %s)", m.t, k.t, v.t), kind: m.kind}
	case "strof": // strof(b): the string holding the bytes of b (what string(b) yields in the code)
		b := arg(0)
		if b.typ == nil {
			cx.fail("strof of untyped value")
		}
		sl, ok := b.typ.Underlying().(*types.Slice)
		if !ok || !isUint8(sl.Elem()) {
			cx.fail("strof needs a []byte")
		}
		g.sc.declare("strofbytes", "(declare-fun strofbytes ((Array Int Int) Int Int) Str)")
		return sval{t: fmt.Sprintf("(strofbytes (select %s (s-arr %s)) (s-off %s) (s-len %s))", g.get(cx.st, g.sc.elemComp(sl.Elem())), b.t, b.t, b.t), typ: types.Typ[types.String], kind: "val"}
	case "freshin": // freshin(L, x): the object (array) x refers to was allocated during the current iteration of loop L
		lit, ok := x.Args[0].(*EInt)
		if !ok {
			cx.fail("freshin(L, x): L must be a loop ordinal literal")
		}
		v := arg(1)
		ref := v.t
		if v.typ != nil {
			if _, isSl := v.typ.Underlying().(*types.Slice); isSl {
				ref = fmt.Sprintf("(s-arr %s)", v.t)
			}
		}
		for _, l := range g.loops {
			if l.ordinal == int(lit.Val.Int64()) {
				if l.iterAlloc == "" {
					cx.fail("freshin(%d, ..) used before loop %d is entered", l.ordinal, l.ordinal)
				}
				return sval{t: fmt.Sprintf("(>= (rootref %s) %s)", ref, l.iterAlloc), kind: "bool"}
			}
		}
		cx.fail("freshin: no loop %d", lit.Val.Int64())
	case "setadd", "setdel":
		sv, e := arg(0), arg(1)
		if sv.kind != "intset" {
			cx.fail("%s on non-set", x.Fun)
		}
		od := cx.stableTerm("(Array Int Bool)", sv.t)
		val := "true"
		if x.Fun == "setdel" {
			val = "false"
		}
		nd := cx.stableTerm("(Array Int Bool)", fmt.Sprintf("(store %s %s %s)", od, e.t, val))
		cx.addAxioms(g.sc.mapLenStore("Int", od, nd, e.t, x.Fun == "setadd"))
		return sval{t: nd, kind: "intset"}
	case "cap":
		v := arg(0)
		return sval{t: fmt.Sprintf("(s-cap %s)", v.t), kind: "int"}
	case "visited": // visited(L, k): key k has already been visited by the map range loop with ordinal L
		lit, ok := x.Args[0].(*EInt)
		if !ok {
			cx.fail("visited(L, k): L must be a loop ordinal literal")
		}
		var key string
		for _, l := range g.loops {
			if l.ordinal == int(lit.Val.Int64()) {
				for _, in := range l.header.Instrs {
					if nx, ok := in.(*ssa.Next); ok {
						if rng, ok := nx.Iter.(*ssa.Range); ok {
							key = g.rangeVisitedKey(rng)
						}
					}
				}
			}
		}
		if key == "" {
			cx.fail("visited(%s, ...): loop is not a map range loop", lit.Val)
		}
		k := arg(1)
		if k.kind == "loc" {
			k = cx.asValue(k)
		}
		return sval{t: fmt.Sprintf("(select %s %s)", g.get(cx.st, key), k.t), kind: "bool"}
	case "arrayof": // arrayof(s): the whole backing array of slice s as a mathematical map (index = absolute position)
		v := arg(0)
		sl, ok := v.typ.Underlying().(*types.Slice)
		if !ok {
			cx.fail("arrayof on non-slice")
		}
		kind := "intmap"
		if isFloat(sl.Elem()) {
			kind = "realmap"
		} else if _, isI := isInt(sl.Elem()); !isI {
			cx.fail("arrayof: element type %s not supported", sl.Elem())
		}
		return sval{t: fmt.Sprintf("(select %s (s-arr %s))", g.get(cx.st, g.sc.elemComp(sl.Elem())), v.t), kind: kind}
	case "strat": // strat(s, i): i-th byte of string s
		sv := arg(0)
		g.sc.declare("strat", "(declare-fun strat (Str Int) Int)")
		return sval{t: fmt.Sprintf("(strat %s %s)", sv.t, cx.intTerm(x.Args[1])), kind: "int"}
	case "addr": // addr(x): the reference of a struct location (e.g. an embedded struct), comparable with pointers
		v := arg(0)
		if v.kind == "loc" {
			return sval{t: v.t, kind: "int"}
		}
		if v.typ != nil && deref(v.typ) != nil {
			return sval{t: v.t, kind: "int"}
		}
		cx.fail("addr of a non-location %s", x.Args[0])
	case "oldat": // oldat(s, p): like at(s, p) but reading the backing array as it was in the old state (s and p are evaluated in the current context)
		if cx.old == nil {
			cx.fail("oldat() not available here")
		}
		v := arg(0)
		sl, ok := v.typ.Underlying().(*types.Slice)
		if !ok {
			cx.fail("oldat on non-slice")
		}
		if _, isS := isStruct(sl.Elem()); isS {
			cx.fail("oldat on slice of structs")
		}
		pidx := cx.intTerm(x.Args[1])
		return norm(sval{t: fmt.Sprintf("(select (select %s (s-arr %s)) %s)", g.get(cx.old, g.sc.elemComp(sl.Elem())), v.t, pidx), typ: sl.Elem(), kind: "val"})
	case "at": // at(s, p): element of slice s's backing array at absolute index p (s[k] == at(s, s.off + k))
		v := arg(0)
		if v.typ == nil {
			cx.fail("at on untyped value")
		}
		sl, ok := v.typ.Underlying().(*types.Slice)
		if !ok {
			cx.fail("at on non-slice")
		}
		pidx := cx.intTerm(x.Args[1])
		if _, isS := isStruct(sl.Elem()); isS {
			r, ax := g.sc.elemRef(sl.Elem(), fmt.Sprintf("(s-arr %s)", v.t), pidx)
			cx.addAxioms(ax)
			return sval{t: r, typ: sl.Elem(), kind: "loc"}
		}
		return norm(sval{t: fmt.Sprintf("(select (select %s (s-arr %s)) %s)", g.get(cx.st, g.sc.elemComp(sl.Elem())), v.t, pidx), typ: sl.Elem(), kind: "val"})
	case "min", "max":
		a, b := cx.unify(arg(0), arg(1))
		f := "i" + x.Fun
		if a.kind == "real" {
			f = "r" + x.Fun
		}
		r := sval{t: fmt.Sprintf("(%s %s %s)", f, a.t, b.t), kind: a.kind}
		for i := 2; i < len(x.Args); i++ {
			c := arg(i)
			r.t = fmt.Sprintf("(%s %s %s)", f, r.t, c.t)
		}
		return r
	case "tdiv", "tmod": // Go's truncated integer division / remainder
		a, b := arg(0), arg(1)
		return sval{t: fmt.Sprintf("(%s %s %s)", x.Fun, a.t, b.t), kind: "int"}
	case "abs":
		a := arg(0)
		if a.kind == "real" {
			return sval{t: fmt.Sprintf("(ite (>= %s 0.0) %s (- %s))", a.t, a.t, a.t), kind: "real"}
		}
		return sval{t: fmt.Sprintf("(iabs %s)", a.t), kind: "int"}
	case "real":
		a := arg(0)
		if a.kind == "real" {
			return a
		}
		return sval{t: fmt.Sprintf("(to_real %s)", a.t), kind: "real"}
	case "floor": // floor of a real as an integer
		a := arg(0)
		if a.kind != "real" {
			return a
		}
		return sval{t: fmt.Sprintf("(to_int %s)", a.t), kind: "int"}
	case "sqrt":
		a := arg(0)
		return sval{t: fmt.Sprintf("(rsqrt %s)", a.t), kind: "real"}
	case "dom": // dom(m, k): key k present in map m
		m, k := arg(0), arg(1)
		mt, ok := m.typ.Underlying().(*types.Map)
		if !ok {
			cx.fail("dom on non-map")
		}
		dom, _ := g.sc.mapComps(mt)
		return sval{t: fmt.Sprintf("(select (select %s %s) %s)", g.get(cx.st, dom), m.t, k.t), kind: "bool"}
	case "callerfresh": // at a call site: the argument was allocated by the calling function (it owns it exclusively); inside the callee: no information
		v := arg(0)
		if cx.callerEntry == nil {
			return sval{t: "true", kind: "bool"}
		}
		t := v.t
		if v.typ != nil {
			if _, ok := v.typ.Underlying().(*types.Slice); ok {
				t = fmt.Sprintf("(s-arr %s)", v.t)
			}
		}
		return sval{t: fmt.Sprintf("(>= %s %s)", t, g.get(cx.callerEntry, "alloc")), kind: "bool"}
	case "fresh": // allocated during this call/function
		v := arg(0)
		oa := g.get(cx.old, "alloc")
		t := v.t
		if v.typ != nil {
			if _, ok := v.typ.Underlying().(*types.Slice); ok {
				t = fmt.Sprintf("(s-arr %s)", v.t)
			}
		}
		return sval{t: fmt.Sprintf("(>= %s %s)", t, oa), kind: "bool"}
	case "allocated": // the value is a well-formed, allocated value of its type in the current state
		v := arg(0)
		oa := g.get(cx.st, "alloc")
		if v.typ != nil {
			cs := g.sc.valid(v.typ, v.t, oa, 0)
			return sval{t: and(cs...), kind: "bool"}
		}
		return sval{t: fmt.Sprintf("(and (< %s %s) (=> (not (= %s 0)) %s))", v.t, oa, v.t, existedAt(v.t, oa)), kind: "bool"}
	case "typeis": // typeis(x, T): dynamic type of interface x is T
		v := arg(0)
		tn, ok := x.Args[1].(*EIdent)
		tstr := ""
		if ok {
			tstr = tn.Name
		} else {
			tstr = strings.Trim(x.Args[1].String(), "\"")
		}
		t := cx.resolveType(tstr)
		id := g.sc.typeID("type:" + typeName(t))
		return sval{t: fmt.Sprintf("(= (i-typ %s) %d)", v.t, id), kind: "bool"}
	case "unbox": // unbox(x, T)
		v := arg(0)
		tstr := strings.Trim(x.Args[1].String(), "\"")
		t := cx.resolveType(tstr)
		return norm(sval{t: g.unboxTerm(t, v.t), typ: t, kind: "val"})
	case "unchanged":
		var cs []string
		ocx := cx.with(cx.old)
		ocx.locals = false
		for _, a := range x.Args {
			n := cx.eval(a)
			o := ocx.eval(a)
			if n.kind == "loc" {
				n, o = cx.asValue(n), ocx.asValue(o)
			}
			n, o = cx.unify(n, o)
			cs = append(cs, fmt.Sprintf("(= %s %s)", n.t, o.t))
		}
		return sval{t: and(cs...), kind: "bool"}
	}
	// integer conversions
	if o := types.Universe.Lookup(x.Fun); o != nil {
		if tn, ok := o.(*types.TypeName); ok {
			v := arg(0)
			if _, isI := isInt(tn.Type()); isI {
				if v.kind == "real" {
					return sval{t: fmt.Sprintf("(rtrunc %s)", v.t), typ: tn.Type(), kind: "int"}
				}
				return sval{t: g.sc.wrapExact(tn.Type(), v.t), typ: tn.Type(), kind: "int"}
			}
			if isFloat(tn.Type()) {
				if v.kind == "real" {
					return v
				}
				return sval{t: fmt.Sprintf("(to_real %s)", v.t), kind: "real"}
			}
		}
	}
	// uninterpreted spec function
	if uf := cx.lookupUFunc(x.Fun); uf != nil {
		if len(uf.Params) != len(x.Args) {
			cx.fail("ufunc %s expects %d args", uf.Name, len(uf.Params))
		}
		var sorts, ts []string
		for i, prm := range uf.Params {
			if prm.Type == "realmap" || prm.Type == "intmap" || prm.Type == "real" {
				v := cx.eval(x.Args[i])
				switch prm.Type {
				case "realmap":
					sorts = append(sorts, "(Array Int Real)")
				case "intmap":
					sorts = append(sorts, "(Array Int Int)")
				default:
					sorts = append(sorts, "Real")
					if v.kind == "int" {
						v = sval{t: fmt.Sprintf("(to_real %s)", v.t), kind: "real"}
					}
				}
				ts = append(ts, v.t)
				continue
			}
			pt := cx.resolveType(prm.Type)
			v := cx.eval(x.Args[i])
			if v.kind == "loc" {
				v = cx.asValue(v)
			}
			if pt == nil {
				sorts = append(sorts, "Int")
			} else {
				sorts = append(sorts, g.sc.sortOf(pt))
			}
			ts = append(ts, v.t)
		}
		rs, rk := "Int", "int"
		var rt types.Type
		switch uf.Result {
		case "int", "mathint":
		case "bool":
			rs, rk = "Bool", "bool"
		case "real":
			rs, rk = "Real", "real"
		case "realmap":
			rs, rk = "(Array Int Real)", "realmap"
		default:
			rt = cx.resolveType(uf.Result)
			rs, rk = g.sc.sortOf(rt), "val"
		}
		name := q("uf:" + uf.Name)
		g.sc.declare(name, fmt.Sprintf("(declare-fun %s (%s) %s)", name, strings.Join(sorts, " "), rs))
		t := name
		if len(ts) > 0 {
			t = fmt.Sprintf("(%s %s)", name, strings.Join(ts, " "))
		}
		return norm(sval{t: t, typ: rt, kind: rk})
	}
	// predicate expansion
	if cx.spec != nil {
		if p, ok := cx.lookupPred(x.Fun); ok {
			if len(p.Params) != len(x.Args) {
				cx.fail("pred %s expects %d args", p.Name, len(p.Params))
			}
			if cx.depth > 40 {
				cx.fail("pred expansion too deep (recursive pred %s?)", p.Name)
			}
			n := *cx
			n.vars = map[string]sval{}
			n.locals = false
			for i, prm := range p.Params {
				v := cx.eval(x.Args[i])
				n.vars[prm.Name] = v
			}
			n.depth = cx.depth + 1
			return n.eval(p.Body)
		}
	}
	// explicit lemma instance: lemma name applied to arguments
	if lm := cx.g.env.findLemma(x.Fun); lm != nil {
		if qe, ok := lm.Body.(*EQuant); ok && qe.Forall && len(qe.Vars) == len(x.Args) {
			n := *cx
			n.vars = map[string]sval{}
			n.locals = false
			for i, qv := range qe.Vars {
				n.vars[qv.Name] = cx.eval(x.Args[i])
			}
			return n.eval(qe.Body)
		}
		cx.fail("lemma %s cannot be applied to %d arguments", x.Fun, len(x.Args))
	}
	// named type conversion, e.g. RawType(x), FrameIndex(x)
	if o := cx.pkg.Scope().Lookup(x.Fun); o != nil {
		if tn, ok := o.(*types.TypeName); ok {
			v := arg(0)
			if _, isI := isInt(tn.Type()); isI {
				return sval{t: g.sc.wrapExact(tn.Type(), v.t), typ: tn.Type(), kind: "int"}
			}
		}
	}
	cx.fail("unknown function %s in spec", x.Fun)
	return sval{}
}

// stableTerm names a ground term with a declared constant (so it can appear in quantifier patterns).
// Inside quantifiers the term is used as is.
func (cx *SpecCtx) stableTerm(sort, term string) string {
	if cx.axioms != nil {
		return term
	}
	return cx.g.defConst("st", sort, term)
}

func (cx *SpecCtx) lookupUFunc(name string) *UFunc {
	if cx.spec != nil {
		if u, ok := cx.spec.UFuncs[name]; ok {
			return u
		}
	}
	for _, sf := range cx.g.env.Specs {
		if u, ok := sf.UFuncs[name]; ok {
			return u
		}
	}
	return nil
}

func (cx *SpecCtx) lookupPred(name string) (*Pred, bool) {
	if p, ok := cx.spec.Preds[name]; ok {
		return p, true
	}
	for _, sf := range cx.g.env.Specs {
		if p, ok := sf.Preds[name]; ok {
			return p, true
		}
	}
	return nil, false
}

// ---------- modifies locations ----------

type location struct {
	comp string
	ref  string              // single reference (or "")
	pred func(string) string // membership predicate over a reference variable (when ref == "")
}

func (l location) member(r string) string {
	if l.pred != nil {
		return l.pred(r)
	}
	return fmt.Sprintf("(= %s %s)", r, l.ref)
}

// locations evaluates a modifies-clause expression into heap locations.
func (cx *SpecCtx) locations(e Expr) []location {
	g := cx.g
	switch x := e.(type) {
	case *EStar:
		// x[*].* : every field (also nested) of every element of a slice of structs
		if sel, ok := x.X.(*ESel); ok && sel.Field == "*" {
			if inner, ok := sel.X.(*EStar); ok {
				base := cx.eval(inner.X)
				if base.typ != nil {
					if sl, ok := base.typ.Underlying().(*types.Slice); ok {
						if _, isS := isStruct(sl.Elem()); isS {
							arr := fmt.Sprintf("(s-arr %s)", base.t)
							var comps []string
							g.sc.leafComps(sl.Elem(), map[string]bool{}, &comps)
							var out []location
							for _, c := range comps {
								out = append(out, location{comp: c, pred: func(r string) string { return fmt.Sprintf("(= (rootref %s) %s)", r, arr) }})
							}
							return out
						}
					}
				}
				cx.fail("modifies %s: [*].* needs a slice of structs", e)
			}
		}
		// x[*]  or  x.*
		if sel, ok := x.X.(*ESel); ok && sel.Field == "*" {
			base := cx.eval(sel.X)
			ref, st, isLoc := cx.structBase(base)
			if !isLoc {
				cx.fail("modifies %s: not a heap object", e)
			}
			return cx.allFields(ref, st)
		}
		base := cx.eval(x.X)
		if base.typ == nil {
			cx.fail("modifies %s: untyped", e)
		}
		switch u := base.typ.Underlying().(type) {
		case *types.Slice:
			arr := fmt.Sprintf("(s-arr %s)", base.t)
			if _, ok := isStruct(u.Elem()); ok {
				var comps []string
				g.sc.leafComps(u.Elem(), map[string]bool{}, &comps)
				var out []location
				ia := q("elemarr:" + typeName(u.Elem()))
				g.sc.elemRef(u.Elem(), "0", "0")
				for _, c := range comps {
					out = append(out, location{comp: c, pred: func(r string) string {
						return fmt.Sprintf("(= (%s (rootref %s)) %s)", ia, r, arr)
					}})
				}
				cx.fail("modifies on slices of structs not supported yet")
				return out
			}
			return []location{{comp: g.sc.elemComp(u.Elem()), ref: arr}}
		case *types.Map:
			dom, val := g.sc.mapComps(u)
			return []location{{comp: dom, ref: base.t}, {comp: val, ref: base.t}}
		}
		cx.fail("modifies %s: [*] on %s", e, base.typ)
	case *ESel:
		if c, ok := x.X.(*ECall); ok && c.Fun == "any" && len(c.Args) == 1 {
			// any(T).f : field f of every object of struct type T
			t := cx.resolveType(strings.Trim(c.Args[0].String(), "\""))
			if key, _, _, ok := cx.ghostField(t, x.Field); ok {
				return []location{{comp: key, pred: func(string) string { return "true" }}}
			}
			st, ok := isStruct(t)
			if !ok {
				cx.fail("modifies %s: not a struct type", e)
			}
			for i := 0; i < st.NumFields(); i++ {
				if st.Field(i).Name() == x.Field {
					if _, isS := isStruct(st.Field(i).Type()); isS {
						var comps []string
						g.sc.leafComps(st.Field(i).Type(), map[string]bool{}, &comps)
						var out []location
						for _, k := range comps {
							out = append(out, location{comp: k, pred: func(string) string { return "true" }})
						}
						return out
					}
					return []location{{comp: g.sc.fieldCompReg(t, i), pred: func(string) string { return "true" }}}
				}
			}
			cx.fail("modifies %s: no such field", e)
		}
		base := cx.eval(x.X)
		ref, st, isLoc := cx.structBase(base)
		if !isLoc {
			cx.fail("modifies %s: not a heap object", e)
		}
		// ghost field
		if key, _, _, ok := cx.ghostField(st, x.Field); ok {
			return []location{{comp: key, ref: ref}}
		}
		obj, index, _ := types.LookupFieldOrMethod(st, true, cx.pkg, x.Field)
		if _, ok := obj.(*types.Var); !ok {
			if named, ok2 := st.(*types.Named); ok2 && named.Obj().Pkg() != nil {
				obj, index, _ = types.LookupFieldOrMethod(st, true, named.Obj().Pkg(), x.Field)
			}
			if _, ok := obj.(*types.Var); !ok {
				cx.fail("modifies: no field %s in %s", x.Field, st)
			}
		}
		t := st
		cur := ref
		for k, fi := range index {
			s, _ := isStruct(t)
			ft := s.Field(fi).Type()
			if _, isS := isStruct(ft); isS {
				r, ax := g.sc.fldRef(t, fi, cur)
				cx.addAxioms(ax)
				cur, t = r, ft
				continue
			}
			if k == len(index)-1 {
				return []location{{comp: g.sc.fieldCompReg(t, fi), ref: cur}}
			}
			// embedded pointer
			cur = fmt.Sprintf("(select %s %s)", g.get(cx.st, g.sc.fieldCompReg(t, fi)), cur)
			t = deref(ft)
		}
		// the field itself is a struct: all its leaves
		return cx.allFields(cur, t)
	case *EIndex:
		// single element: over-approximate by the whole backing array / map
		return cx.locations(&EStar{x.X})
	case *EUnary:
		if x.Op == "*" {
			v := cx.eval(x.X)
			pt := deref(v.typ)
			if pt == nil {
				cx.fail("modifies %s: not a pointer", e)
			}
			if _, isS := isStruct(pt); isS {
				return cx.allFields(v.t, pt)
			}
			return []location{{comp: g.sc.cellComp(pt), ref: v.t}}
		}
	case *EIdent:
		if key, _, ok := g.ghostVar(x.Name); ok {
			return []location{{comp: key, pred: func(string) string { return "true" }}}
		}
		// captured variable or global
		if v, ok := cx.vars["&"+x.Name]; ok {
			pt := deref(v.typ)
			if _, isS := isStruct(pt); isS {
				return cx.allFields(v.t, pt)
			}
			return []location{{comp: g.sc.cellComp(pt), ref: v.t}}
		}
	}
	if c, ok := e.(*ECall); ok && c.Fun == "anyarray" && len(c.Args) == 1 {
		// anyarray(T): every array (slice backing store) with element type T
		t := cx.resolveType(strings.Trim(c.Args[0].String(), "\""))
		if _, isS := isStruct(t); isS {
			cx.fail("anyarray of struct type: use any(T)")
		}
		return []location{{comp: g.sc.elemComp(t), pred: func(string) string { return "true" }}}
	}
	if c, ok := e.(*ECall); ok && c.Fun == "any" && len(c.Args) == 1 {
		// any(T): every object of struct type T (all its leaf fields, including nested structs)
		t := cx.resolveType(strings.Trim(c.Args[0].String(), "\""))
		var comps []string
		g.sc.leafComps(t, map[string]bool{}, &comps)
		var out []location
		for _, k := range comps {
			out = append(out, location{comp: k, pred: func(string) string { return "true" }})
		}
		return out
	}
	cx.fail("unsupported modifies target %s", e)
	return nil
}

func (cx *SpecCtx) allFields(ref string, t types.Type) []location {
	g := cx.g
	var out []location
	s, _ := isStruct(t)
	for i := 0; i < s.NumFields(); i++ {
		ft := s.Field(i).Type()
		if _, ok := isStruct(ft); ok {
			r, ax := g.sc.fldRef(t, i, ref)
			cx.addAxioms(ax)
			out = append(out, cx.allFields(r, ft)...)
		} else {
			out = append(out, location{comp: g.sc.fieldCompReg(t, i), ref: ref})
		}
	}
	return out
}


// isLemmaInstance reports whether e is built only from lemma applications, conjunction,
// universal quantification and weakening by a guard (G ==> instance); such a formula is valid
// whenever the lemmas are.
func (env *Env) isLemmaInstance(e Expr) bool {
	switch x := e.(type) {
	case *ECall:
		if env.findLemma(x.Fun) != nil {
			return true
		}
		// a predicate (macro) whose body is a lemma instance
		for _, sf := range env.Specs {
			if p, ok := sf.Preds[x.Fun]; ok {
				return env.isLemmaInstance(p.Body)
			}
		}
		return false
	case *EBinary:
		if x.Op == "&&" {
			return env.isLemmaInstance(x.X) && env.isLemmaInstance(x.Y)
		}
		if x.Op == "==>" {
			return env.isLemmaInstance(x.Y)
		}
	case *EQuant:
		return x.Forall && env.isLemmaInstance(x.Body)
	}
	return false
}


// ghostVar resolves a ghost global variable declared with "ghost var" in any contract file.
func (g *FuncGen) ghostVar(name string) (key string, kind string, ok bool) {
	for _, sf := range g.env.Specs {
		if t, found := sf.GhostVars[name]; found {
			key = "G:ghost." + name
			srt := "Int"
			kind = "int"
			switch t {
			case "bool":
				srt, kind = "Bool", "bool"
			case "intmap":
				srt, kind = "(Array Int Int)", "intmap"
			case "intset":
				srt, kind = "(Array Int Bool)", "intset"
			case "strint": // string-keyed ghost maps (e.g. file state by path)
				srt, kind = "(Array Str Int)", "strint"
			case "strstr":
				srt, kind = "(Array Str Str)", "strstr"
			case "strset":
				srt, kind = "(Array Str Bool)", "strset"
			case "strany": // string -> interface value
				srt, kind = "(Array Str Iface)", "strany"
			}
			if _, have := g.cellSort[key]; !have {
				g.cellSort[key] = srt
			}
			return key, kind, true
		}
	}
	return "", "", false
}
