package main

import (
	"encoding/json"
	"flag"
	"fmt"
	"os"
	"runtime"
	"strings"

	"dvc/internal/vc"
)

func main() {
	if len(os.Args) < 2 {
		fmt.Fprintln(os.Stderr, "usage: dvc func|check|loops|list ...")
		os.Exit(2)
	}
	switch os.Args[1] {
	case "func":
		cmdFunc(os.Args[2:])
	case "list":
		cmdList(os.Args[2:])
	case "check":
		os.Exit(cmdCheck(os.Args[2:]))
	case "replay":
		os.Exit(cmdReplay(os.Args[2:]))
	case "replayall":
		// dvc replayall <repo> [property]: runs every function under contract on solver-generated inputs that satisfy its
		// precondition and evaluates its postconditions on what the real code did (no violation needed to start it)
		env, err := vc.Load(os.Args[2], "/verif/contracts")
		if err != nil {
			fmt.Fprintln(os.Stderr, err)
			os.Exit(2)
		}
		nw := 0
		for _, t := range env.ContractTargets() {
			if len(os.Args) > 3 && !contains(t.Props, os.Args[3]) {
				continue
			}
			prop := "ALL"
			if len(t.Props) > 0 {
				prop = t.Props[0]
			}
			fr := replayFunction("/verif", os.Args[2], prop, t.Rel, t.Key, env, nil)
			st := fr.Status
			if len(st) > 300 {
				st = st[:300]
			}
			fmt.Printf("%s %s %s: witnesses=%d %s\n", prop, t.Rel, t.Key, len(fr.Witnesses), st)
			for _, w := range fr.Witnesses {
				nw++
				fmt.Println("  WITNESS", w.Clause, w.Panic)
			}
		}
		fmt.Println("total witnesses:", nw)
	case "replayfn":
		// dvc replayfn <repo> <property> <package dir relative to the repository, "" for the root> <function key>
		env, err := vc.Load(os.Args[2], "/verif/contracts")
		if err != nil {
			fmt.Fprintln(os.Stderr, err)
			os.Exit(2)
		}
		var vs []*vc.ObResult
		for _, n := range os.Args[6:] {
			vs = append(vs, &vc.ObResult{Name: n, Verdict: "undecided"})
		}
		fr := replayFunction("/verif", os.Args[2], os.Args[3], os.Args[4], os.Args[5], env, vs)
		fmt.Println(fr.Status)
		for _, w := range fr.Witnesses {
			b, _ := json.Marshal(w)
			if len(b) > 1500 {
				b = b[:1500]
			}
			fmt.Println("WITNESS", w.Clause, w.Panic, string(b))
		}
	case "bind":
		// record the variable names of all functions under contract (run on the unchanged tree, see sync_contracts.sh)
		env, err := vc.Load("/repo", "/verif/contracts")
		if err != nil {
			fmt.Fprintln(os.Stderr, err)
			os.Exit(2)
		}
		b, _ := json.MarshalIndent(env.RecordBindings(), "", " ")
		if err := os.WriteFile("/verif/contracts/bindings.json", b, 0o644); err != nil {
			fmt.Fprintln(os.Stderr, err)
			os.Exit(2)
		}
		fmt.Println("recorded bindings of", len(env.RecordBindings()), "functions")
	case "selftest":
		os.Exit(cmdSelftest(os.Args[2:]))
	default:
		fmt.Fprintln(os.Stderr, "unknown command", os.Args[1])
		os.Exit(2)
	}
}

func pkgPath(env *vc.Env, rel string) string {
	if rel == "." || rel == "" {
		return env.Module
	}
	return env.Module + "/" + rel
}

func solverCfg(quick, long int) *vc.SolverCfg {
	cfg := &vc.SolverCfg{QuickTimeout: quick, LongTimeout: long, Workers: runtime.NumCPU() - 2}
	if cfg.Workers < 2 {
		cfg.Workers = 2
	}
	if os.Getenv("DVC_CACHE") != "" {
		cfg.CacheDir = "/verif/work/cache"
	}
	return cfg
}

func cmdList(args []string) {
	fs := flag.NewFlagSet("list", flag.ExitOnError)
	repo := fs.String("repo", "/repo", "repository")
	fs.Parse(args)
	env, err := vc.Load(*repo, "/verif/contracts")
	if err != nil {
		fmt.Fprintln(os.Stderr, err)
		os.Exit(2)
	}
	for _, k := range env.FuncKeys(pkgPath(env, fs.Arg(0))) {
		fmt.Println(k)
	}
}

func cmdFunc(args []string) {
	fs := flag.NewFlagSet("func", flag.ExitOnError)
	repo := fs.String("repo", "/repo", "repository")
	dump := fs.String("dump", "", "write the SMT script of the obligation with this name (substring) to stdout")
	verbose := fs.Bool("v", false, "verbose")
	to := fs.Int("t", 5, "quick timeout")
	fs.Parse(args)
	env, err := vc.Load(*repo, "/verif/contracts")
	if err != nil {
		fmt.Fprintln(os.Stderr, err)
		os.Exit(2)
	}
	pp := pkgPath(env, fs.Arg(0))
	key := fs.Arg(1)
	var fr *vc.FuncResult
	if strings.HasPrefix(key, "lemma:") {
		lm := env.FindLemma(strings.TrimPrefix(key, "lemma:"))
		if lm == nil {
			fmt.Fprintln(os.Stderr, "no such lemma")
			os.Exit(2)
		}
		fr, err = env.GenLemma(env.Specs[pp], lm)
	} else {
		fr, err = env.GenByKey(pp, key)
	}
	if err != nil {
		fmt.Fprintln(os.Stderr, err)
		os.Exit(2)
	}
	if fr.Unsupported != "" {
		fmt.Println("UNSUPPORTED:", fr.Unsupported)
		os.Exit(2)
	}
	if *dump == "" {
		for _, l := range fr.LoopLines {
			fmt.Println(l)
		}
		for _, w := range fr.Warnings {
			fmt.Println("warning:", w)
		}
	}
	if *dump != "" {
		for _, ob := range fr.Obls {
			if strings.Contains(ob.Name, *dump) {
				fmt.Print(vc.BuildQuery(fr, ob))
				return
			}
		}
		fmt.Fprintln(os.Stderr, "no such obligation")
		os.Exit(2)
	}
	res := vc.Discharge([]*vc.FuncResult{fr}, solverCfg(*to, 20))
	bad := 0
	for _, r := range res {
		mark := "ok  "
		switch r.Verdict {
		case "failed", "undecided", "cover-vacuous":
			mark = "FAIL"
			bad++
		}
		fmt.Printf("%s %-10s %-70s %s %.2fs %s:%d\n", mark, r.Verdict, r.Name, r.Solver, r.Seconds, shortFile(r.Ob.Pos.Filename), r.Ob.Pos.Line)
		if *verbose && (r.Verdict == "failed" || r.Verdict == "undecided") {
			fmt.Println("    src:", r.Ob.Src)
			if r.Model != "" {
				fmt.Println(indent(vc.SummarizeModel(r.Model, 40)))
			}
			if r.Output != "" {
				fmt.Println(indent(r.Output))
			}
		}
	}
	if *verbose {
		for _, a := range fr.Assumptions {
			fmt.Println("assumption:", a)
		}
	}
	fmt.Printf("%d obligations, %d not discharged\n", len(res), bad)
}

func indent(s string) string { return "    " + strings.ReplaceAll(strings.TrimSpace(s), "\n", "\n    ") }

func shortFile(f string) string {
	if i := strings.LastIndex(f, "/"); i >= 0 {
		return f[i+1:]
	}
	return f
}
