package main

import (
	"fmt"
	"os"
	"os/exec"
	"strings"

	"dvc/internal/vc"
)

// replayModel tries to reproduce a solver counterexample on the real code.
// Drivers are registered per function in replay drivers (see /verif/replay); when none exists
// the violation is still reported, marked no-failing-input-found.
func replayModel(verif, repo, prop string, r *vc.ObResult, rp map[string]interface{}) bool {
	rp["replay"] = "no replay driver registered for " + r.Ob.Fn
	return false
}

func cmdReplay(args []string) int {
	if len(args) < 1 {
		fmt.Fprintln(os.Stderr, "usage: dvc replay <file>")
		return 2
	}
	b, err := os.ReadFile(args[0])
	if err != nil {
		fmt.Fprintln(os.Stderr, err)
		return 2
	}
	fmt.Println(string(b))
	// Re-run the saved verification condition, if it was kept next to the replay file: the same solver query
	// that failed, so that the verdict (and the solver's model, when it gives one) can be reproduced.
	smt := strings.TrimSuffix(args[0], ".json") + ".smt2"
	if _, err := os.Stat(smt); err != nil {
		return 0
	}
	fmt.Println("re-running the saved verification condition", smt)
	rc := 0
	for _, sv := range []string{"z3-new", "z3", "cvc5"} {
		var cmd *exec.Cmd
		switch sv {
		case "cvc5":
			cmd = exec.Command("cvc5", "--tlimit=30000", "--force-logic=ALL", smt)
		default:
			cmd = exec.Command(sv, "-T:30", smt)
		}
		out, _ := cmd.CombinedOutput()
		first := strings.SplitN(strings.TrimSpace(string(out)), "\n", 2)[0]
		fmt.Printf("  %-7s %s\n", sv+":", first)
		if first == "sat" {
			fmt.Println("  the negated obligation is satisfiable: the obligation is refuted (the model is a counterexample in the verifier's heap encoding)")
			rc = 1
		}
		if first == "unsat" {
			fmt.Println("  the obligation is proved by this solver (no violation on this tree)")
			return 0
		}
	}
	if rc == 0 {
		fmt.Println("  undecided by every solver within 30 s: the obligation could not be discharged (no-failing-input-found)")
		rc = 1
	}
	return rc
}
