package main

import (
	"context"
	"encoding/json"
	"fmt"
	"go/types"
	"math/rand"
	"os"
	"os/exec"
	"path/filepath"
	"sort"
	"strings"
	"time"

	"dvc/internal/vc"
)

// Replay of counterexamples on the real code.
//
// For a function with failed or undecided obligations the driver
//  1. asks the solver for the entry state of the counterexample (parameters and the memory reachable from them,
//     slices bounded in length), and, as further candidates, for entry states that merely satisfy the precondition;
//  2. builds those arguments in a generated in-package test (go test -overlay, /verif/replay/harness.go.txt), calls
//     the real function and records the panic, or the state reachable from arguments and results after the call;
//  3. pins the built arguments and the observed state as ground facts and asks the solver whether the function's
//     preconditions are satisfiable (the input is one the contract admits) and whether a postcondition is
//     unsatisfiable (the observed outcome is one the contract excludes).
// Only then is the violation reported with a failing input; everything else keeps the words no-failing-input-found.

type replayWitness struct {
	Clause   string   `json:"postcondition_falsified,omitempty"`
	Panic    string   `json:"panic,omitempty"`
	Source   string   `json:"input_from"`
	Args     []*vc.RV `json:"arguments"`
	Observed *vc.ROut `json:"observed"`
	Notes    []string `json:"notes,omitempty"`
	Props    []string `json:"-"`
}

type funcReplay struct {
	Status    string // text for the replay file
	Witnesses []*replayWitness
	Dir       string
}

var replayCache = map[string]*funcReplay{}
var dbgN int

// replayBase is where replay files go (overridden in self-tests so that they do not overwrite real reports).
func replayBase(verif string) string {
	if d := os.Getenv("DVC_REPLAY_DIR"); d != "" {
		return d
	}
	return filepath.Join(verif, "work", "replay")
}
var replayStart time.Time

func panicMatchesKind(kind, msg string) bool {
	switch kind {
	case "index":
		return strings.Contains(msg, "index out of range")
	case "slice":
		return strings.Contains(msg, "slice bounds out of range")
	case "nil":
		return strings.Contains(msg, "nil pointer dereference") || strings.Contains(msg, "invalid memory address")
	case "div":
		return strings.Contains(msg, "divide by zero")
	case "make":
		return strings.Contains(msg, "makeslice") || strings.Contains(msg, "out of range")
	case "typeassert":
		return strings.Contains(msg, "interface conversion")
	case "panic":
		return true
	}
	return false
}

// replayModel tries to reproduce a violation of obligation r on the real code.
func replayModel(verif, repo, prop string, r *vc.ObResult, rp map[string]interface{}, env *vc.Env, all []*vc.ObResult) (confirmed bool) {
	defer func() {
		// the replay is an extra: whatever goes wrong in it, the violation is still reported
		if x := recover(); x != nil {
			rp["replay"] = fmt.Sprintf("replay driver failed: %v", x)
			confirmed = false
		}
	}()
	if env == nil || r.Ob == nil || r.Kind == "attach" || r.Kind == "lemma" || r.Ob.Fn == "" {
		rp["replay"] = "not attempted: the obligation is not about one function's execution"
		return false
	}
	file := r.Ob.Pos.Filename
	if file == "" {
		// loop obligations may carry no position: take the one of another obligation of the same function
		for _, o := range all {
			if o.Ob != nil && o.Ob.Fn == r.Ob.Fn && o.Ob.Pos.Filename != "" {
				file = o.Ob.Pos.Filename
				break
			}
		}
	}
	if file == "" {
		rp["replay"] = "not attempted: no source position"
		return false
	}
	rel, err := filepath.Rel(repo, filepath.Dir(file))
	if err != nil || strings.HasPrefix(rel, "..") {
		rp["replay"] = "not attempted: source outside the repository"
		return false
	}
	if rel == "." {
		rel = ""
	}
	ck := rel + "|" + r.Ob.Fn
	fr, ok := replayCache[ck]
	if !ok && (len(replayCache) >= 4 || (len(replayCache) > 0 && time.Since(replayStart) > 6*time.Minute)) {
		rp["replay"] = "not attempted: the replay budget of this run (4 functions, 6 minutes) is used up"
		return false
	}
	if !ok {
		if len(replayCache) == 0 {
			replayStart = time.Now()
		}
		var mine []*vc.ObResult
		for _, o := range all {
			if o.Ob != nil && o.Ob.Fn == r.Ob.Fn && (o.Ob.Pos.Filename == "" || filepath.Dir(o.Ob.Pos.Filename) == filepath.Dir(file)) && !o.Ob.Cover &&
				(o.Verdict == "failed" || o.Verdict == "undecided") {
				mine = append(mine, o)
			}
		}
		fr = replayFunction(verif, repo, prop, rel, r.Ob.Fn, env, mine)
		replayCache[ck] = fr
	}
	rp["replay"] = fr.Status
	if fr.Dir != "" {
		rp["replay_files"] = fr.Dir
	}
	for _, w := range fr.Witnesses {
		if w.Panic != "" {
			// only a panic of the kind the obligation excludes, on the input of that obligation's own counterexample
			if panicMatchesKind(r.Kind, w.Panic) && strings.Contains(w.Source, r.Name) {
				rp["failing_input"] = w
				return true
			}
			continue
		}
		// a falsified postcondition witnesses the violations of this function that carry the same property
		if len(w.Props) == 0 || len(r.Ob.Props) == 0 || intersects(w.Props, r.Ob.Props) {
			rp["failing_input"] = w
			return true
		}
	}
	return false
}

func intersects(a, b []string) bool {
	for _, x := range a {
		for _, y := range b {
			if x == y {
				return true
			}
		}
	}
	return false
}

func goTypeString(t types.Type, self *types.Package, imports map[string]string, bad *string) string {
	return types.TypeString(t, func(p *types.Package) string {
		if p == self {
			return ""
		}
		imports[p.Path()] = p.Name()
		return p.Name()
	})
}

// unexportedForeign reports a named type of another package that the test could not spell.
func unexportedForeign(t types.Type, self *types.Package, depth int) string {
	if depth > 6 {
		return ""
	}
	switch u := t.(type) {
	case *types.Named:
		if u.Obj().Pkg() != nil && u.Obj().Pkg() != self && !u.Obj().Exported() {
			return u.String()
		}
		return ""
	case *types.Pointer:
		return unexportedForeign(u.Elem(), self, depth+1)
	case *types.Slice:
		return unexportedForeign(u.Elem(), self, depth+1)
	case *types.Array:
		return unexportedForeign(u.Elem(), self, depth+1)
	case *types.Map:
		if s := unexportedForeign(u.Key(), self, depth+1); s != "" {
			return s
		}
		return unexportedForeign(u.Elem(), self, depth+1)
	case *types.Chan:
		return unexportedForeign(u.Elem(), self, depth+1)
	}
	return ""
}

func replayFunction(verif, repo, prop, rel, key string, env *vc.Env, viols []*vc.ObResult) *funcReplay {
	res := &funcReplay{}
	t0 := time.Now()
	pkg := pkgPath(env, rel)
	env.KeepGen = true
	defer func() { env.KeepGen = false; env.Concrete = false }()
	fr, err := env.GenByKey(pkg, key)
	if err != nil || fr == nil || fr.G == nil || fr.Unsupported != "" {
		res.Status = "not attempted: verification conditions of the function cannot be generated"
		return res
	}
	g := fr.G
	if ok, why := g.Replayable(); !ok {
		res.Status = "not attempted: " + why
		return res
	}
	fn := fr.Fn
	self := fn.Pkg.Pkg
	for _, p := range fn.Params {
		if s := unexportedForeign(p.Type(), self, 0); s != "" {
			res.Status = "not attempted: parameter type " + s + " cannot be named in a test of this package"
			return res
		}
	}

	// ---- 1. candidate inputs
	type cand struct {
		args   []*vc.RV
		source string
		notes  []string
	}
	var cands []cand
	var log []string
	deadline := t0.Add(90 * time.Second)
	weak := false
	addFrom := func(script, source string, k0 int, timeout int, extra []string) string {
		rq := g.ReplayQuery(k0)
		fr.RefreshPrelude()
		body := strings.TrimSuffix(script, "(check-sat)\n")
		if weak {
			body = strings.TrimSuffix(vc.SearchForm(script), "(check-sat)\n")
		}
		// random side constraints are soft: each has an indicator, and those in an unsatisfiable core are dropped
		on := make([]bool, len(extra))
		for i := range on {
			on[i] = true
		}
		v, out := "", ""
		for round := 0; round < 12; round++ {
			var ind strings.Builder
			var names []string
			for i, e := range extra {
				if on[i] {
					fmt.Fprintf(&ind, "(declare-const dv!%d Bool)\n(assert (=> dv!%d %s))\n", i, i, e)
					names = append(names, fmt.Sprintf("dv!%d", i))
				}
			}
			full := body + rq.Bounds + ind.String() + rq.Defs
			if len(names) > 0 {
				full = "(set-option :produce-unsat-cores true)\n" + full + "(check-sat-assuming (" + strings.Join(names, " ") + "))\n"
			} else {
				full += "(check-sat)\n"
			}
			v, out = vc.RunQuery("z3-new", full+rq.Get, timeout)
			if d := os.Getenv("DVC_REPLAY_DEBUG"); d != "" {
				dbgN++
				os.WriteFile(filepath.Join(d, fmt.Sprintf("q%03d_%s.smt2", dbgN, v)), []byte("; "+source+"\n"+full+rq.Get), 0o644)
			}
			if v != "unsat" || len(names) == 0 {
				break
			}
			_, cout := vc.RunQuery("z3-new", full+"(get-unsat-core)\n", timeout)
			core := vc.CoreNames(strings.SplitN(cout, "\n", 2)[len(strings.SplitN(cout, "\n", 2))-1])
			dropped := 0
			for _, c := range core {
				var k int
				if _, err := fmt.Sscanf(c, "dv!%d", &k); err == nil && k < len(on) && on[k] {
					on[k] = false
					dropped++
				}
			}
			if dropped == 0 {
				// no usable core: drop half of the remaining constraints
				for i := range on {
					if on[i] && i%2 == round%2 {
						on[i] = false
					}
				}
			}
		}
		if v == "sat" {
			args, notes, err := g.ReplayInput(rq, out)
			if err != nil {
				log = append(log, source+": "+err.Error())
				return "error"
			}
			cands = append(cands, cand{args, source, notes})
		}
		return v
	}
	obByName := map[string]*vc.Obligation{}
	var cover *vc.Obligation
	for _, ob := range fr.Obls {
		obByName[ob.Name] = ob
		if ob.Cover && ob.Label == "requires-satisfiable" {
			cover = ob
		}
	}
	// (a) the solver's counterexamples, refuted obligations first; an obligation the solver could not decide in
	// general is tried again with most of the entry state fixed to random values (a ground instance is decided fast)
	h := 0
	for _, c := range key {
		h = h*31 + int(c)
	}
	rnd := rand.New(rand.NewSource(int64(h)))
	sort.SliceStable(viols, func(i, j int) bool { return viols[i].Verdict == "failed" && viols[j].Verdict != "failed" })
	n := 0
	for _, v := range viols {
		ob := obByName[v.Name]
		if ob == nil || n >= 4 || time.Now().After(deadline) {
			continue
		}
		n++
		to := 20
		if v.Verdict != "failed" {
			to = 6
		}
		got := false
		for _, k0 := range []int{12, 48} {
			rq := g.ReplayQuery(k0)
			fr.RefreshPrelude()
			script := vc.BuildQuery(fr, ob)
			r := addFrom(script, "counterexample of "+v.Name, k0, to, nil)
			if r == "unsat" {
				log = append(log, fmt.Sprintf("%s: no counterexample with slices of length <= %d", v.Name, k0))
				continue
			}
			if r == "sat" {
				got = true
			}
			if r != "sat" && r != "error" {
				log = append(log, v.Name+": the solver gave no model within the time limit")
				hits := 0
				weak = true
				for try := 0; try < 16 && hits < 3 && !time.Now().After(deadline); try++ {
					frac := []float64{0.9, 0.7, 0.5, 0.8}[try%4]
					if addFrom(script, "counterexample of "+v.Name+" (entry state partly fixed at random)", k0, 4, rq.Diversify(rnd, frac)) == "sat" {
						hits++
						got = true
					}
				}
			}
			break
		}
		weak = false
		_ = got
	}
	// (b) inputs that merely satisfy the precondition, spread by random side constraints
	if cover != nil && len(cands) < 3 {
		rq := g.ReplayQuery(12)
		fr.RefreshPrelude()
		script := vc.BuildQuery(fr, cover)
		got := 0
		weak = true
		addFrom(script, "an input satisfying the precondition", 12, 6, nil)
		for try := 0; try < 30 && got < 8 && !time.Now().After(deadline); try++ {
			frac := []float64{0.7, 0.4, 0.2}[try%3]
			if addFrom(script, "an input satisfying the precondition (spread by random side constraints)", 12, 4, rq.Diversify(rnd, frac)) == "sat" {
				got++
			}
		}
	}
	// drop duplicates
	{
		seen := map[string]bool{}
		var uniq []cand
		for _, c := range cands {
			b, _ := json.Marshal(c.args)
			if !seen[string(b)] {
				seen[string(b)] = true
				uniq = append(uniq, c)
			}
		}
		cands = uniq
	}
	if len(cands) == 0 {
		res.Status = "no input could be derived: " + strings.Join(log, "; ")
		return res
	}

	// ---- 2. run the real function
	dir := filepath.Join(replayBase(verif), prop, sanitize(key)+".replay")
	os.RemoveAll(dir)
	os.MkdirAll(dir, 0o755)
	res.Dir = dir
	var inputs [][]*vc.RV
	for _, c := range cands {
		inputs = append(inputs, c.args)
	}
	ib, _ := json.MarshalIndent(inputs, "", " ")
	inPath := filepath.Join(dir, "inputs.json")
	outPath := filepath.Join(dir, "observed.json")
	os.WriteFile(inPath, ib, 0o644)
	hb, err := os.ReadFile(filepath.Join(verif, "replay", "harness.go.txt"))
	if err != nil {
		res.Status = "harness missing: " + err.Error()
		return res
	}
	harness := strings.Replace(string(hb), "package PKGNAME", "package "+self.Name(), 1)
	imports := map[string]string{}
	var bad string
	var sb strings.Builder
	sb.WriteString("func TestVerifReplay(t *testing.T) {\n\tvrRun(t, func(in []*vrV, h *vrH) {\n")
	var argNames, argPtrs []string
	for i, p := range fn.Params {
		fmt.Fprintf(&sb, "\t\tvar a%d %s\n\t\th.build(reflect.ValueOf(&a%d).Elem(), in[%d])\n", i, goTypeString(p.Type(), self, imports, &bad), i, i)
		argNames = append(argNames, fmt.Sprintf("a%d", i))
		argPtrs = append(argPtrs, fmt.Sprintf("&a%d", i))
	}
	call := ""
	if fn.Signature.Recv() != nil {
		call = fmt.Sprintf("a0.%s(%s)", fn.Name(), strings.Join(argNames[1:], ", "))
	} else {
		call = fmt.Sprintf("%s(%s)", fn.Name(), strings.Join(argNames, ", "))
	}
	nres := fn.Signature.Results().Len()
	var rn, rp []string
	for i := 0; i < nres; i++ {
		rn = append(rn, fmt.Sprintf("r%d", i))
		rp = append(rp, fmt.Sprintf("&r%d", i))
	}
	sb.WriteString("\t\th.call(func() {\n")
	if nres > 0 {
		fmt.Fprintf(&sb, "\t\t\t%s := %s\n\t\t\th.results(%s)\n", strings.Join(rn, ", "), call, strings.Join(rp, ", "))
	} else {
		fmt.Fprintf(&sb, "\t\t\t%s\n", call)
	}
	sb.WriteString("\t\t})\n")
	fmt.Fprintf(&sb, "\t\th.args(%s)\n\t})\n}\n", strings.Join(argPtrs, ", "))
	var imp []string
	for p := range imports {
		imp = append(imp, p)
	}
	sort.Strings(imp)
	stub := "package " + self.Name() + "\n\nimport (\n\t\"reflect\"\n\t\"testing\"\n"
	for _, p := range imp {
		stub += fmt.Sprintf("\t%s %q\n", imports[p], p)
	}
	stub += ")\n\n" + sb.String()
	os.WriteFile(filepath.Join(dir, "zz_verif_replay_harness_test.go"), []byte(harness), 0o644)
	os.WriteFile(filepath.Join(dir, "zz_verif_replay_call_test.go"), []byte(stub), 0o644)
	// overlay: the two generated files in, every other test file of the package out (no TestMain, no servers)
	repl := map[string]string{
		filepath.Join(repo, rel, "zz_verif_replay_harness_test.go"): filepath.Join(dir, "zz_verif_replay_harness_test.go"),
		filepath.Join(repo, rel, "zz_verif_replay_call_test.go"):    filepath.Join(dir, "zz_verif_replay_call_test.go"),
	}
	others, _ := filepath.Glob(filepath.Join(repo, rel, "*_test.go"))
	for _, o := range others {
		repl[o] = ""
	}
	ov, _ := json.MarshalIndent(map[string]interface{}{"Replace": repl}, "", " ")
	ovPath := filepath.Join(dir, "overlay.json")
	os.WriteFile(ovPath, ov, 0o644)
	gopkg := "./" + rel
	if rel == "" {
		gopkg = "."
	}
	ctx, cancel := context.WithTimeout(context.Background(), 400*time.Second)
	defer cancel()
	cmd := exec.CommandContext(ctx, "go", "test", "-overlay="+ovPath, "-vet=off", "-count=1", "-timeout=300s", "-run", "^TestVerifReplay$", gopkg)
	cmd.Dir = repo
	cmd.Env = append(os.Environ(), "GOFLAGS=-mod=mod", "GOPROXY=off", "GOSUMDB=off", "GOTOOLCHAIN=local", "DVC_REPLAY_IN="+inPath, "DVC_REPLAY_OUT="+outPath)
	out, rerr := cmd.CombinedOutput()
	os.WriteFile(filepath.Join(dir, "run.sh"), []byte(fmt.Sprintf("#!/bin/sh\n# re-runs the real function on the inputs of inputs.json; what it observes is written to observed.json\ncd %s && GOFLAGS=-mod=mod GOPROXY=off GOSUMDB=off GOTOOLCHAIN=local DVC_REPLAY_IN=%s DVC_REPLAY_OUT=%s go test -overlay=%s -vet=off -count=1 -timeout=300s -run '^TestVerifReplay$' %s\n", repo, inPath, outPath, ovPath, gopkg)), 0o755)
	ob, err := os.ReadFile(outPath)
	if err != nil {
		s := string(out)
		if len(s) > 3000 {
			s = s[len(s)-3000:]
		}
		res.Status = fmt.Sprintf("the generated test did not run (%v): %s", rerr, s)
		return res
	}
	var outs []*vc.ROut
	if err := json.Unmarshal(ob, &outs); err != nil || len(outs) != len(cands) {
		res.Status = "unreadable harness output"
		return res
	}

	// ---- 3. evaluate the contract on what was observed
	env.Concrete = true
	frC, err := env.GenByKey(pkg, key)
	env.Concrete = false
	if err != nil || frC == nil || frC.G == nil || frC.Unsupported != "" {
		res.Status = "the contract could not be evaluated on the observed state"
		if err != nil {
			res.Status += ": " + err.Error()
		}
		return res
	}
	gC := frC.G
	var coverC *vc.Obligation
	var ens []*vc.Obligation
	for _, o := range frC.Obls {
		if o.Cover && o.Label == "requires-satisfiable" {
			coverC = o
		}
		if o.Kind == "ensures" {
			ens = append(ens, o)
		}
	}
	var summary []string
	judgeDeadline := time.Now().Add(120 * time.Second)
	for i, c := range cands {
		o := outs[i]
		if time.Now().After(judgeDeadline) || len(res.Witnesses) >= 2 {
			break
		}
		tag := fmt.Sprintf("input %d (%s)", i+1, c.source)
		if o.Error != "" {
			summary = append(summary, tag+": "+o.Error)
			continue
		}
		if o.Timeout {
			summary = append(summary, tag+": the call did not return within 10 s (blocked on something the harness cannot provide)")
			continue
		}
		pre := gC.PinPre(c.args)
		frC.RefreshPrelude()
		if globals := gC.ReadsGlobals(); len(globals) > 0 {
			summary = append(summary, tag+": the contract reads package-level variables the replay does not pin ("+strings.Join(globals, ", ")+")")
			continue
		}
		if coverC == nil {
			summary = append(summary, tag+": no precondition check available")
			continue
		}
		preQ := vc.ConcreteQuery(frC, coverC, pre, false)
		if d := os.Getenv("DVC_REPLAY_DEBUG"); d != "" {
			os.WriteFile(filepath.Join(d, fmt.Sprintf("pre_%d.smt2", i+1)), []byte(preQ), 0o644)
		}
		if v, _ := vc.RunQuery("z3-new", preQ, 15); v != "sat" {
			summary = append(summary, tag+": the arguments that could be built do not satisfy the precondition ("+v+")")
			continue
		}
		if o.Panic != "" {
			res.Witnesses = append(res.Witnesses, &replayWitness{Panic: o.Panic, Source: c.source, Args: c.args, Observed: o, Notes: c.notes})
			summary = append(summary, tag+": the real function panics on an input that satisfies the precondition: "+o.Panic)
			continue
		}
		post := gC.PinPost(o)
		frC.RefreshPrelude()
		pins := append(append([]string{}, pre...), post...)
		found := false
		for _, e := range ens {
			if time.Now().After(judgeDeadline) {
				break
			}
			// unsatisfiable together with the observed state?  (checked first: it is the rare answer)
			if v, _ := vc.RunQuery("z3-new", vc.ConcreteQuery(frC, e, pins, true), 5); v != "unsat" {
				continue
			}
			// ... and not merely because the observation contradicts the heap model or the precondition
			if v, _ := vc.RunQuery("z3-new", vc.ConcreteQuery(frC, e, pins, false), 20); v != "sat" {
				continue
			}
			res.Witnesses = append(res.Witnesses, &replayWitness{Clause: e.Name + ": " + e.Src, Source: c.source, Args: c.args, Observed: o, Notes: c.notes, Props: e.Props})
			summary = append(summary, fmt.Sprintf("%s: the real function returns a state that falsifies %s", tag, e.Name))
			os.WriteFile(filepath.Join(dir, fmt.Sprintf("falsified_%d_%s.smt2", i+1, sanitize(e.Label))), []byte(vc.ConcreteQuery(frC, e, pins, true)), 0o644)
			found = true
			break
		}
		if !found {
			summary = append(summary, tag+": the real function's outcome satisfies (or does not decide) every postcondition")
		}
	}
	res.Status = fmt.Sprintf("%d candidate input(s) run on the real code in %.0f s: %s", len(cands), time.Since(t0).Seconds(), strings.Join(append(summary, log...), "; "))
	return res
}

func cmdReplay(args []string) int {
	if len(args) < 1 {
		fmt.Fprintln(os.Stderr, "usage: dvc replay <file>")
		return 2
	}
	b, err := os.ReadFile(args[0])
	if err != nil {
		fmt.Fprintln(os.Stderr, err)
		return 2
	}
	fmt.Println(string(b))
	var rp map[string]interface{}
	if json.Unmarshal(b, &rp) == nil {
		if d, ok := rp["replay_files"].(string); ok {
			if _, err := os.Stat(filepath.Join(d, "run.sh")); err == nil {
				fmt.Println("re-running the real function on the recorded inputs:", filepath.Join(d, "run.sh"))
				out, _ := exec.Command("/bin/sh", filepath.Join(d, "run.sh")).CombinedOutput()
				fmt.Println(string(out))
				ob, _ := os.ReadFile(filepath.Join(d, "observed.json"))
				if len(ob) > 4000 {
					ob = append(ob[:4000], []byte(" ...")...)
				}
				fmt.Println("observed:", string(ob))
				fs, _ := filepath.Glob(filepath.Join(d, "falsified_*.smt2"))
				for _, f := range fs {
					out, _ := exec.Command("z3-new", "-T:30", f).CombinedOutput()
					fmt.Printf("postcondition together with the recorded observation (%s): %s  (unsat = the observed outcome violates it)\n", filepath.Base(f), strings.TrimSpace(strings.SplitN(string(out), "\n", 2)[0]))
				}
			}
		}
	}
	// Re-run the saved verification condition, if it was kept next to the replay file: the same solver query
	// that failed, so that the verdict (and the solver's model, when it gives one) can be reproduced.
	smt := strings.TrimSuffix(args[0], ".json") + ".smt2"
	if _, err := os.Stat(smt); err != nil {
		return 0
	}
	fmt.Println("re-running the saved verification condition", smt)
	rc := 0
	for _, sv := range []string{"z3-new", "z3", "cvc5"} {
		var cmd *exec.Cmd
		switch sv {
		case "cvc5":
			cmd = exec.Command("cvc5", "--tlimit=30000", "--force-logic=ALL", smt)
		default:
			cmd = exec.Command(sv, "-T:30", smt)
		}
		out, _ := cmd.CombinedOutput()
		first := strings.SplitN(strings.TrimSpace(string(out)), "\n", 2)[0]
		fmt.Printf("  %-7s %s\n", sv+":", first)
		if first == "sat" {
			fmt.Println("  the negated obligation is satisfiable: the obligation is refuted (the model is a counterexample in the verifier's heap encoding)")
			rc = 1
		}
		if first == "unsat" {
			fmt.Println("  the obligation is proved by this solver (no violation on this tree)")
			return 0
		}
	}
	if rc == 0 {
		fmt.Println("  undecided by every solver within 30 s: the obligation could not be discharged (no-failing-input-found)")
		rc = 1
	}
	return rc
}
