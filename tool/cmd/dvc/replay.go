package main

import (
	"fmt"
	"os"

	"dvc/internal/vc"
)

// replayModel tries to reproduce a solver counterexample on the real code.
// Drivers are registered per function in replay drivers (see /verif/replay); when none exists
// the violation is still reported, marked no-failing-input-found.
func replayModel(verif, repo, prop string, r *vc.ObResult, rp map[string]interface{}) bool {
	rp["replay"] = "no replay driver registered for " + r.Ob.Fn
	return false
}

func cmdReplay(args []string) int {
	if len(args) < 1 {
		fmt.Fprintln(os.Stderr, "usage: dvc replay <file>")
		return 2
	}
	b, err := os.ReadFile(args[0])
	if err != nil {
		fmt.Fprintln(os.Stderr, err)
		return 2
	}
	fmt.Println(string(b))
	return 0
}
