package main

import (
	"bufio"
	"context"
	"os/exec"
	"encoding/json"
	"flag"
	"fmt"
	"os"
	"path/filepath"
	"sort"
	"strconv"
	"strings"
	"time"

	"dvc/internal/vc"
)

type knownFinding struct {
	Property   string `json:"property"`
	Obligation string `json:"obligation"`
	What       string `json:"what"`
	Status     string `json:"status"` // "known" (default) or "fixed"
	Commit     string `json:"commit,omitempty"`
}

func loadKnown(path string) []knownFinding {
	var out []knownFinding
	f, err := os.Open(path)
	if err != nil {
		return nil
	}
	defer f.Close()
	sc := bufio.NewScanner(f)
	sc.Buffer(make([]byte, 1<<20), 1<<20)
	for sc.Scan() {
		l := strings.TrimSpace(sc.Text())
		if l == "" || strings.HasPrefix(l, "#") || strings.HasPrefix(l, "fixed:") {
			continue
		}
		var k knownFinding
		if json.Unmarshal([]byte(l), &k) == nil && k.Obligation != "" {
			out = append(out, k)
		}
	}
	return out
}

type expected struct {
	Functions []string `json:"functions"`
	MinObls   int      `json:"min_obligations"`
}

func contains(xs []string, x string) bool {
	for _, y := range xs {
		if y == x {
			return true
		}
	}
	return false
}

func cmdCheck(args []string) int {
	fs := flag.NewFlagSet("check", flag.ExitOnError)
	repo := fs.String("repo", "/repo", "repository")
	tier := fs.String("tier", "", "quick or thorough")
	verif := fs.String("verif", "/verif", "verif directory")
	verbose := fs.Bool("v", false, "verbose")
	noReplay := fs.Bool("no-replay", os.Getenv("DVC_NO_REPLAY") != "", "do not try to replay counterexamples on the real code")
	fs.Parse(args)
	if fs.NArg() < 1 {
		fmt.Fprintln(os.Stderr, "usage: dvc check <property> [--tier quick|thorough]")
		return 2
	}
	// flags may follow the positional argument
	prop := fs.Arg(0)
	rest := fs.Args()[1:]
	fs2 := flag.NewFlagSet("check2", flag.ExitOnError)
	tier2 := fs2.String("tier", *tier, "")
	verbose2 := fs2.Bool("v", *verbose, "")
	repo2 := fs2.String("repo", *repo, "")
	noReplay2 := fs2.Bool("no-replay", *noReplay, "")
	fs2.Parse(rest)
	*noReplay = *noReplay2
	*tier, *verbose, *repo = *tier2, *verbose2, *repo2
	if *tier == "" {
		*tier = os.Getenv("VERIF_TIER")
	}
	if *tier == "" {
		*tier = "quick"
	}
	seed := 0
	if s := os.Getenv("VERIF_SEED"); s != "" {
		seed, _ = strconv.Atoi(s)
	}
	t0 := time.Now()
	env, err := vc.Load(*repo, filepath.Join(*verif, "contracts"))
	if err != nil {
		fmt.Fprintln(os.Stderr, "dvc: cannot load repository:", err)
		return 2
	}
	loadSecs := time.Since(t0).Seconds()

	// collect functions and lemmas for this property
	type target struct {
		pkg, key string
	}
	var targets []target
	var frs []*vc.FuncResult
	var machineryErrors []string
	var pkgs []string
	for p := range env.Specs {
		pkgs = append(pkgs, p)
	}
	sort.Strings(pkgs)
	var externs []string
	for _, p := range pkgs {
		sf := env.Specs[p]
		for _, key := range sf.Order {
			c := sf.Contracts[key]
			if c.Extern || c.Trusted {
				continue
			}
			if !contractMentions(c, prop) {
				continue
			}
			targets = append(targets, target{p, key})
		}
		for _, lm := range sf.Lemmas {
			if contains(lm.Props, prop) && !lm.Assumed {
				fr, err := env.GenLemma(sf, lm)
				if err != nil {
					machineryErrors = append(machineryErrors, err.Error())
					continue
				}
				frs = append(frs, fr)
			}
		}
	}
	var unsupported []string
	var unattached []*vc.ObResult
	var assumptions = map[string]bool{}
	var funcsUnder []string
	for _, t := range targets {
		fr, err := env.GenByKey(t.pkg, t.key)
		if err != nil || fr.Unsupported != "" {
			// the contract of this function can no longer be established at all (its code left the
			// verifiable subset, or the contract no longer attaches to the code): an undischarged obligation
			why := ""
			if err != nil {
				why = err.Error()
			} else {
				why = "function outside the supported subset: " + fr.Unsupported
				unsupported = append(unsupported, t.key+": "+fr.Unsupported)
			}
			ob := &vc.Obligation{Name: t.key + "/contract-attaches", Kind: "attach", Fn: t.key, Props: []string{prop}, Src: why}
			unattached = append(unattached, &vc.ObResult{Ob: ob, Name: ob.Name, Kind: "attach", Verdict: "undecided", Output: why})
			continue
		}
		// keep only obligations routed to this property
		var obs []*vc.Obligation
		for _, ob := range fr.Obls {
			if contains(ob.Props, prop) {
				obs = append(obs, ob)
			}
		}
		fr.Obls = obs
		frs = append(frs, fr)
		funcsUnder = append(funcsUnder, strings.TrimPrefix(t.pkg, env.Module)+" "+t.key)
		for _, a := range fr.Assumptions {
			assumptions[a] = true
		}
	}
	for _, p := range pkgs {
		for _, key := range env.Specs[p].Order {
			c := env.Specs[p].Contracts[key]
			if c.Extern || c.Trusted {
				externs = append(externs, key)
			}
		}
	}

	quickT, longT := 10, 120
	if *tier == "thorough" {
		quickT, longT = 20, 300
	}
	cfg := solverCfg(quickT, longT)
	cfg.Seed = seed
	results := vc.Discharge(frs, cfg)
	// second chance for obligations that only timed out (e.g. on a loaded machine): re-run up to 12 of them with a longer
	// limit before anything is reported
	retried := vc.Retry(results, cfg, 300, 12)
	if retried > 0 && *verbose {
		fmt.Printf("retried %d undecided obligations with a longer time limit\n", retried)
	}
	results = append(results, unattached...)

	// bounded stand-ins (never counted as proved)
	type boundedRes struct {
		Pkg, Test, Desc, Verdict string
		Seconds               float64
		Output                string
	}
	var boundedResults []boundedRes
	for _, p := range pkgs {
		sf := env.Specs[p]
		for _, bc := range sf.Bounded {
			if !contains(bc.Props, prop) {
				continue
			}
			rel := strings.TrimPrefix(strings.TrimPrefix(p, env.Module), "/")
			t1 := time.Now()
			ok, out := runOverlayTest(*repo, filepath.Join(*verif, "bounded", rel), rel, bc.Test, 300)
			br := boundedRes{Pkg: rel, Test: bc.Test, Desc: bc.Desc, Seconds: round3(time.Since(t1).Seconds())}
			if ok {
				br.Verdict = "passed"
			} else {
				br.Verdict = "failed"
				br.Output = out
			}
			boundedResults = append(boundedResults, br)
		}
	}

	// expected floor
	var exp map[string]expected
	if b, err := os.ReadFile(filepath.Join(*verif, "expected_obligations.json")); err == nil {
		json.Unmarshal(b, &exp)
	}
	known := loadKnown(filepath.Join(*verif, "known_findings.jsonl"))

	nObl, nProved := 0, 0
	solverWins := map[string]int{}
	var solverSecs float64
	type viol struct {
		r     *vc.ObResult
		known *knownFinding
	}
	var viols []viol
	retCover := map[string]bool{}
	retSeen := map[string]bool{}
	for _, r := range results {
		if r.Ob.Cover {
			fn := r.Ob.Fn
			if strings.Contains(r.Ob.Label, "return-reachable") {
				retSeen[fn] = true
				if r.Verdict == "cover-ok" {
					retCover[fn] = true
				}
			} else if r.Verdict == "cover-vacuous" {
				machineryErrors = append(machineryErrors, "vacuous precondition: "+r.Name)
			}
			continue
		}
		nObl++
		solverSecs += r.Seconds
		switch r.Verdict {
		case "proved":
			nProved++
			solverWins[r.Solver]++
		default:
			v := viol{r: r}
			for i := range known {
				if known[i].Property == prop && known[i].Obligation == r.Name {
					v.known = &known[i]
				}
			}
			viols = append(viols, v)
		}
	}
	for fn := range retSeen {
		if !retCover[fn] {
			// every return unreachable: either the function always panics (reported by its panic obligation) or the contract is vacuous
			machineryErrors = append(machineryErrors, "no reachable return in "+fn+" (vacuous contract?)")
		}
	}
	if e, ok := exp[prop]; ok {
		for _, f := range e.Functions {
			found := false
			for _, fu := range funcsUnder {
				if strings.HasSuffix(fu, " "+f) {
					found = true
				}
			}
			if !found {
				machineryErrors = append(machineryErrors, "expected function under contract missing: "+f)
			}
		}
		if nObl < e.MinObls {
			machineryErrors = append(machineryErrors, fmt.Sprintf("obligation count %d below the committed floor %d", nObl, e.MinObls))
		}
	}
	if nObl == 0 {
		machineryErrors = append(machineryErrors, "no obligations generated for "+prop)
	}

	// report
	replayDir := filepath.Join(replayBase(*verif), prop)
	os.MkdirAll(replayDir, 0o755)
	exit := 0
	var knownLines, violLines []string
	for _, v := range viols {
		r := v.r
		if v.known != nil {
			line := fmt.Sprintf("KNOWN-FINDING: property=%s %s -- %s", prop, r.Name, v.known.What)
			fmt.Println(line)
			knownLines = append(knownLines, line)
			continue
		}
		path := filepath.Join(replayDir, sanitize(r.Name)+".json")
		rp := map[string]interface{}{
			"property": prop, "obligation": r.Name, "kind": r.Kind, "verdict": r.Verdict, "solver": r.Solver,
			"source": fmt.Sprintf("%s:%d", r.Ob.Pos.Filename, r.Ob.Pos.Line), "clause": r.Ob.Src,
			"solver_output": r.Output, "model": vc.SummarizeModel(r.Model, 200),
		}
		confirmed := false
		if (r.Verdict == "failed" || r.Verdict == "undecided") && !*noReplay {
			confirmed = replayModel(*verif, *repo, prop, r, rp, env, results)
		}
		b, _ := json.MarshalIndent(rp, "", " ")
		os.WriteFile(path, b, 0o644)
		os.WriteFile(strings.TrimSuffix(path, ".json")+".smt2", []byte(r.Script), 0o644)
		line := fmt.Sprintf("VIOLATION property=%s replay=%s", prop, path)
		if !confirmed {
			line += " obligation=" + strings.ReplaceAll(r.Name, " ", "_") + " no-failing-input-found"
		}
		fmt.Println(line)
		violLines = append(violLines, line)
		exit = 1
	}
	for _, br := range boundedResults {
		if br.Verdict == "passed" {
			continue
		}
		path := filepath.Join(replayDir, sanitize("bounded_"+br.Pkg+"_"+br.Test)+".json")
		rp := map[string]interface{}{"property": prop, "obligation": "bounded stand-in " + br.Test + " (package " + br.Pkg + ")", "kind": "bounded", "description": br.Desc,
			"replay": "go test output of the stand-in on the real code", "output": br.Output}
		b, _ := json.MarshalIndent(rp, "", " ")
		os.WriteFile(path, b, 0o644)
		line := fmt.Sprintf("VIOLATION property=%s replay=%s", prop, path)
		fmt.Println(line)
		violLines = append(violLines, line)
		exit = 1
	}
	for _, k := range known {
		if k.Property != prop {
			continue
		}
		seen := false
		for _, v := range viols {
			if v.known != nil && v.known.Obligation == k.Obligation {
				seen = true
			}
		}
		if !seen {
			fmt.Printf("note: known finding %s no longer fails (obligation discharged or renamed)\n", k.Obligation)
		}
	}

	// evidence
	var samples []map[string]interface{}
	var slow []*vc.ObResult
	for _, r := range results {
		if !r.Ob.Cover {
			slow = append(slow, r)
		}
	}
	sort.Slice(slow, func(i, j int) bool { return slow[i].Seconds > slow[j].Seconds })
	for i, r := range slow {
		if i >= 5 {
			break
		}
		samples = append(samples, map[string]interface{}{"obligation": r.Name, "kind": r.Kind, "clause": r.Ob.Src, "verdict": r.Verdict, "solver": r.Solver, "seconds": round3(r.Seconds), "smt_bytes": r.Bytes,
			"source": fmt.Sprintf("%s:%d", shortFile(r.Ob.Pos.Filename), r.Ob.Pos.Line)})
	}
	// plus a few postconditions
	n := 0
	for _, r := range results {
		if r.Kind == "ensures" && n < 8 {
			samples = append(samples, map[string]interface{}{"obligation": r.Name, "kind": r.Kind, "clause": r.Ob.Src, "verdict": r.Verdict, "solver": r.Solver, "seconds": round3(r.Seconds), "smt_bytes": r.Bytes})
			n++
		}
	}
	var assumpList []string
	for a := range assumptions {
		assumpList = append(assumpList, a)
	}
	sort.Strings(assumpList)
	sort.Strings(externs)
	if len(externs) > 0 {
		assumpList = append(assumpList, "trusted/extern contracts present in the contract files (assumed where called): "+strings.Join(externs, ", "))
	}
	kinds := map[string]int{}
	for _, r := range results {
		if !r.Ob.Cover {
			kinds[r.Kind]++
		}
	}
	sort.Strings(funcsUnder)
	specSrc := []string{}
	for p, s := range env.SpecSrc {
		specSrc = append(specSrc, strings.TrimPrefix(p, env.Module)+"="+s)
	}
	sort.Strings(specSrc)
	ev := map[string]interface{}{
		"property_id": prop, "tier": *tier, "seed": seed, "level": "proof",
		"coverage": map[string]interface{}{
			"obligations": nObl, "discharged": nProved,
			"checker_cmd":  fmt.Sprintf("/verif/bin/dvc check %s --tier %s", prop, *tier),
			"trusted_base": []string{"go/packages+go/types+go/ssa (x/tools v0.29.0) front end", "dvc VC generator (/verif/tool)", "SMT solvers z3 5.1.0 (z3-new), z3 4.8.12, cvc5 1.0.3 (an unsat answer from one is accepted)", "sequential Go semantics; 64-bit little-endian host"},
			"functions_under_contract": funcsUnder,
			"obligations_by_kind":      kinds,
			"solver_wins":              solverWins,
			"solver_seconds":           round3(solverSecs),
			"load_seconds":             round3(loadSecs),
			"samples":                  samples,
			"known_findings":           knownLines,
			"violations":               violLines,
			"machinery_errors":         machineryErrors,
			"bounded":                  boundedResults,
			"contract_sources":         specSrc,
			"explanation":              "every obligation is a weakest-precondition style verification condition generated from the go/ssa form of the current /repo working tree and the //@ contracts; discharged = solver answered unsat for the negated obligation",
		},
		"assumptions": assumpList,
		"wall_s":      round3(time.Since(t0).Seconds()),
		"violations":  len(violLines),
	}
	evDir := filepath.Join(*verif, "evidence")
	if d := os.Getenv("DVC_EVIDENCE_DIR"); d != "" {
		evDir = d // used by the seed-trial scripts so that trial runs never overwrite the committed evidence
	}
	os.MkdirAll(evDir, 0o755)
	b, _ := json.MarshalIndent(ev, "", " ")
	os.WriteFile(filepath.Join(evDir, prop+".json"), b, 0o644)

	fmt.Printf("%s: %d obligations, %d discharged, %d known findings, %d violations, %d functions, %.1fs\n", prop, nObl, nProved, len(knownLines), len(violLines), len(funcsUnder), time.Since(t0).Seconds())
	if *verbose {
		for _, r := range results {
			fmt.Printf("  %-10s %-80s %s %.2fs\n", r.Verdict, r.Name, r.Solver, r.Seconds)
		}
	}
	if len(machineryErrors) > 0 {
		for _, e := range machineryErrors {
			fmt.Fprintln(os.Stderr, "dvc: machinery error:", e)
		}
		if exit == 0 {
			return 2
		}
	}
	return exit
}

func contractMentions(c *vc.Contract, prop string) bool {
	if contains(c.Props, prop) {
		return true
	}
	if contains(strings.Fields(strings.ReplaceAll(c.Opts["safety_props"], ",", " ")), prop) {
		return true
	}
	for _, cl := range c.Ensures {
		if contains(cl.Props, prop) {
			return true
		}
	}
	for _, l := range c.Loops {
		for _, cl := range l.Invariants {
			if contains(cl.Props, prop) {
				return true
			}
		}
	}
	return false
}

func sanitize(s string) string {
	r := strings.NewReplacer("/", "_", "(", "", ")", "", "*", "", "{", "_", "}", "", "#", "_", " ", "_", "$", "_", ":", "_", ".", "_")
	return r.Replace(s)
}

func round3(f float64) float64 { return float64(int(f*1000+0.5)) / 1000 }

// tryReplay attempts to confirm a counterexample on the real code through a replay driver.


// runOverlayTest injects the test files of dir into package rel of the repository with -overlay and runs one test.
func runOverlayTest(repo, dir, rel, test string, timeoutSec int) (bool, string) {
	files, _ := filepath.Glob(filepath.Join(dir, "*_test.go"))
	if len(files) == 0 {
		return false, "no bounded test files in " + dir
	}
	repl := map[string]string{}
	for _, f := range files {
		repl[filepath.Join(repo, rel, filepath.Base(f))] = f
	}
	ov, _ := json.Marshal(map[string]interface{}{"Replace": repl})
	tmp, err := os.CreateTemp("", "dvc-overlay-*.json")
	if err != nil {
		return false, err.Error()
	}
	defer os.Remove(tmp.Name())
	tmp.Write(ov)
	tmp.Close()
	pkg := "./" + rel
	if rel == "" {
		pkg = "."
	}
	ctx, cancel := context.WithTimeout(context.Background(), time.Duration(timeoutSec+30)*time.Second)
	defer cancel()
	cmd := exec.CommandContext(ctx, "go", "test", "-overlay="+tmp.Name(), "-vet=off", "-count=1", fmt.Sprintf("-timeout=%ds", timeoutSec), "-run", "^"+test+"$", pkg)
	cmd.Dir = repo
	cmd.Env = append(os.Environ(), "GOFLAGS=-mod=mod", "GOPROXY=off", "GOSUMDB=off", "GOTOOLCHAIN=local")
	out, err := cmd.CombinedOutput()
	s := string(out)
	if len(s) > 6000 {
		s = "..." + s[len(s)-6000:]
	}
	if err != nil {
		return false, s
	}
	if !strings.Contains(s, "ok") || strings.Contains(s, "no tests to run") {
		return false, "test did not run: " + s
	}
	return true, s
}
