package main

import (
	"go/types"

	"golang.org/x/tools/go/ssa"
)

func ptrTo(t *ssa.Type) types.Type { return types.NewPointer(t.Type()) }
