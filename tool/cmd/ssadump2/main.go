package main

import (
	"fmt"
	"os"

	"golang.org/x/tools/go/packages"
	"golang.org/x/tools/go/ssa"
	"golang.org/x/tools/go/ssa/ssautil"
)

func main() {
	cfg := &packages.Config{Mode: packages.LoadAllSyntax, Dir: os.Args[1], BuildFlags: []string{"-tags=verif"}}
	pkgs, err := packages.Load(cfg, os.Args[2])
	if err != nil {
		panic(err)
	}
	prog, spkgs := ssautil.AllPackages(pkgs, ssa.NaiveForm|ssa.GlobalDebug)
	prog.Build()
	for _, p := range spkgs {
		for _, m := range p.Members {
			if f, ok := m.(*ssa.Function); ok && f.Name() == os.Args[3] {
				f.WriteTo(os.Stdout)
			}
		}
		if len(os.Args) > 4 {
			// method: Type.Name
			for _, m := range p.Members {
				if t, ok := m.(*ssa.Type); ok && t.Name() == os.Args[3] {
					ms := prog.MethodSets.MethodSet(ptrTo(t))
					for i := 0; i < ms.Len(); i++ {
						f := prog.MethodValue(ms.At(i))
						if f != nil && f.Name() == os.Args[4] {
							f.WriteTo(os.Stdout)
							for _, an := range f.AnonFuncs {
								an.WriteTo(os.Stdout)
							}
						}
					}
				}
			}
		}
	}
	fmt.Println("ok")
}
