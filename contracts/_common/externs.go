//go:build verif

// Trusted contracts for library functions (assumed, never verified; listed in every evidence file).
package common

//@ extern func fmt.Errorf
//@   pure
//@   ensures result != nil

//@ extern func errors.New
//@   pure
//@   ensures result != nil
