//go:build verif

// Contracts for the deductive checker in /verif (comment-only; compiled only with -tags verif).
// Property C18: the shared-memory ring buffer is a loss-free, duplication-free FIFO across wrap.
//
// Ghost state: rb.stream[p] is the byte accepted at absolute position p (p counts all bytes ever
// written).  InvR ties the live part [readPointer, writePointer) of the stream to the raw buffer.

package ringbuffer

//@ ghost field RingBuffer.stream intmap

//@ pred InvShape(rb *RingBuffer) := rb.desc != nil && rb.desc.bufferSize >= 2 && rb.size == rb.desc.bufferSize
//@     && len(rb.raw) == rb.desc.bufferSize && cap(rb.raw) == len(rb.raw) && rb.raw != nil
//@     && rb.desc.readPointer <= rb.desc.writePointer
//@     && rb.desc.writePointer <= rb.desc.readPointer + rb.desc.bufferSize - 1
//@     && rb.desc.bufferSize < 4611686018427387904
//@ pred NoOverflow(rb *RingBuffer) := rb.desc.writePointer < 4611686018427387904 ## the 64-bit byte counters have not wrapped (2^62 bytes)
//@ pred InvData(rb *RingBuffer) := forall p int :: {rb.stream[p]} rb.desc.readPointer <= p && p < rb.desc.writePointer ==> rb.raw[p % rb.desc.bufferSize] == rb.stream[p]
//@ pred InvR(rb *RingBuffer) := InvShape(rb) && InvData(rb)

//@ lemma modadd C18: forall a int, c int, x int :: {(a + x) % c} c > 0 && a >= 0 && x >= 0 && (a % c) + x < c
//@     ==> (a + x) % c == (a % c) + x && (a + x) / c == a / c
//@ lemma modwrap C18: forall a int, c int, x int :: {(a + x) % c} c > 0 && a >= 0 && x >= 0 && (a % c) + x >= c && (a % c) + x < 2 * c
//@     ==> (a + x) % c == (a % c) + x - c && (a + x) / c == a / c + 1

//@ lemma moddiff C18: forall a int, b int, c int :: c > 0 && 0 <= a && a <= b && b - a < c && a % c == b % c ==> a == b

//@ func (*RingBuffer).Write
//@   props C18
//@   apply modadd(rb.desc.writePointer, rb.desc.bufferSize, min(len(data), rb.desc.bufferSize - 1 - (rb.desc.writePointer - rb.desc.readPointer)))
//@      && modwrap(rb.desc.writePointer, rb.desc.bufferSize, min(len(data), rb.desc.bufferSize - 1 - (rb.desc.writePointer - rb.desc.readPointer)))
//@   apply forall p int :: {rb.stream[p]} rb.desc.writePointer <= p ==> modadd(rb.desc.writePointer, rb.desc.bufferSize, p - rb.desc.writePointer)
//@      && modwrap(rb.desc.writePointer, rb.desc.bufferSize, p - rb.desc.writePointer)
//@   apply forall p int :: {rb.stream[p]} rb.desc.readPointer <= p && p < rb.desc.writePointer ==>
//@      moddiff(p, rb.desc.writePointer + ite(p % rb.desc.bufferSize >= rb.desc.writePointer % rb.desc.bufferSize,
//@                 p % rb.desc.bufferSize - rb.desc.writePointer % rb.desc.bufferSize,
//@                 p % rb.desc.bufferSize + rb.desc.bufferSize - rb.desc.writePointer % rb.desc.bufferSize), rb.desc.bufferSize)
//@      && modadd(rb.desc.writePointer, rb.desc.bufferSize, ite(p % rb.desc.bufferSize >= rb.desc.writePointer % rb.desc.bufferSize,
//@                 p % rb.desc.bufferSize - rb.desc.writePointer % rb.desc.bufferSize,
//@                 p % rb.desc.bufferSize + rb.desc.bufferSize - rb.desc.writePointer % rb.desc.bufferSize))
//@      && modwrap(rb.desc.writePointer, rb.desc.bufferSize, ite(p % rb.desc.bufferSize >= rb.desc.writePointer % rb.desc.bufferSize,
//@                 p % rb.desc.bufferSize - rb.desc.writePointer % rb.desc.bufferSize,
//@                 p % rb.desc.bufferSize + rb.desc.bufferSize - rb.desc.writePointer % rb.desc.bufferSize))
//@   requires InvR(rb) && NoOverflow(rb) && data.arr != rb.raw.arr
//@   ensures shape: InvShape(rb)
//@   ensures live: InvData(rb)
//@   ensures noerr: err == nil
//@   ensures count: written == min(len(data), old(rb.desc.bufferSize - 1 - (rb.desc.writePointer - rb.desc.readPointer)))
//@   ensures pointers: rb.desc.writePointer == old(rb.desc.writePointer) + written && rb.desc.readPointer == old(rb.desc.readPointer)
//@   ensures appended: forall i int :: 0 <= i && i < written ==> rb.stream[old(rb.desc.writePointer) + i] == data[i]
//@   ensures history: forall p int :: p < old(rb.desc.writePointer) ==> rb.stream[p] == old(rb.stream[p])
//@   modifies rb.desc.writePointer, rb.raw[*], rb.stream
//@   ghost exit: rb.stream[p] := ite(p >= old(rb.desc.writePointer) && p < old(rb.desc.writePointer) + written, data[p - old(rb.desc.writePointer)], old(rb.stream[p]))

//@ func (*RingBuffer).Read
//@   props C18
//@   requires InvR(rb) && NoOverflow(rb)
//@   ensures shape: InvShape(rb)
//@   ensures live: InvData(rb)
//@   ensures noerr: err == nil
//@   ensures count: len(data) == max(0, min(size, old(rb.desc.writePointer - rb.desc.readPointer)))
//@   ensures pointers: rb.desc.readPointer == old(rb.desc.readPointer) + len(data) && rb.desc.writePointer == old(rb.desc.writePointer)
//@   ensures fifo: forall i int :: 0 <= i && i < len(data) ==> data[i] == rb.stream[old(rb.desc.readPointer) + i]
//@   modifies rb.desc.readPointer
//@   apply modadd(rb.desc.readPointer, rb.desc.bufferSize, min(size, rb.desc.writePointer - rb.desc.readPointer))
//@      && modwrap(rb.desc.readPointer, rb.desc.bufferSize, min(size, rb.desc.writePointer - rb.desc.readPointer))
//@   apply forall p int :: {rb.stream[p]} rb.desc.readPointer <= p ==> modadd(rb.desc.readPointer, rb.desc.bufferSize, p - rb.desc.readPointer)
//@      && modwrap(rb.desc.readPointer, rb.desc.bufferSize, p - rb.desc.readPointer)

//@ lemma divmul C18: forall a int, c int :: c > 0 && a >= 0 ==> c * (a / c) <= a && a - c * (a / c) < c && (c * (a / c)) % c == 0 && a / c >= 0

//@ func (*RingBuffer).BytesReadable
//@   props C18
//@   requires InvR(rb) && NoOverflow(rb)
//@   ensures result == rb.desc.writePointer - rb.desc.readPointer

//@ func (*RingBuffer).BytesWriteable
//@   props C18
//@   requires InvR(rb) && NoOverflow(rb)
//@   ensures result == rb.desc.bufferSize - 1 - (rb.desc.writePointer - rb.desc.readPointer)

//@ func (*RingBuffer).ReadMultipleOf
//@   props C18
//@   requires InvR(rb) && NoOverflow(rb)
//@   apply divmul(rb.desc.writePointer - rb.desc.readPointer, chunksize)
//@   ensures shape: InvShape(rb)
//@   ensures live: InvData(rb)
//@   ensures rejects: chunksize <= 0 ==> err != nil
//@   ensures multiple: err == nil ==> chunksize > 0 && len(data) % chunksize == 0
//@   ensures maximal: err == nil ==> old(rb.desc.writePointer - rb.desc.readPointer) - len(data) < chunksize
//@   ensures pointers: rb.desc.readPointer == old(rb.desc.readPointer) + len(data) && rb.desc.writePointer == old(rb.desc.writePointer)
//@   ensures fifo: forall i int :: 0 <= i && i < len(data) ==> data[i] == rb.stream[old(rb.desc.readPointer) + i]
//@   modifies rb.desc.readPointer

//@ func (*RingBuffer).ReadAll
//@   props C18
//@   requires InvR(rb) && NoOverflow(rb)
//@   ensures shape: InvShape(rb)
//@   ensures live: InvData(rb)
//@   ensures all: err == nil && len(data) == old(rb.desc.writePointer - rb.desc.readPointer)
//@   ensures pointers: rb.desc.readPointer == old(rb.desc.writePointer) && rb.desc.writePointer == old(rb.desc.writePointer)
//@   ensures fifo: forall i int :: 0 <= i && i < len(data) ==> data[i] == rb.stream[old(rb.desc.readPointer) + i]
//@   modifies rb.desc.readPointer

//@ lemma modfloor C18: forall a int, c int :: c > 0 && a >= 0 ==> a % c <= a && (a - a % c) % c == 0

//@ func (*RingBuffer).DiscardStride
//@   props C18
//@   requires InvR(rb) && NoOverflow(rb)
//@   apply modfloor(rb.desc.writePointer, stride)
//@   ensures shape: InvShape(rb)
//@   ensures live: InvData(rb)
//@   ensures rejects: (stride == 0 ==> err != nil) && (stride > 0 ==> err == nil)
//@   ensures forward: old(rb.desc.readPointer) <= rb.desc.readPointer && rb.desc.readPointer <= rb.desc.writePointer && rb.desc.writePointer == old(rb.desc.writePointer)
//@   ensures boundary: err == nil ==> rb.desc.readPointer % stride == 0 || rb.desc.readPointer == old(rb.desc.readPointer)
//@   ensures runt: err == nil ==> rb.desc.writePointer - rb.desc.readPointer < stride
//@   modifies rb.desc.readPointer

//@ func (*RingBuffer).DiscardAll
//@   props C18
//@   requires InvR(rb) && NoOverflow(rb)
//@   ensures shape: InvShape(rb)
//@   ensures live: InvData(rb)
//@   ensures empty: err == nil && rb.desc.readPointer == rb.desc.writePointer && rb.desc.writePointer == old(rb.desc.writePointer)
//@   modifies rb.desc.readPointer
